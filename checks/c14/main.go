// C14 — chunk concatenation is total, deterministic and independent of chunk boundaries (Engine R).
//
// Every chunk sequence up to the length bound over the alphabets of alphabets.go is concatenated on the real
// code through every public way of doing so (schema.ConcatMessages, schema.ConcatMessageStream over a real
// stream, the generic internal.ConcatItems, a compiled compose graph that must convert a stream into a value)
// and judged by family.go/Eval: no panic, same result on repetition, re-chunking invariance for every split
// point, and the small independent model of model.go for the content the statement talks about.
package main

import (
	"encoding/json"
	"fmt"
	"os"
	"runtime/debug"
	"sort"
	"strings"
	"time"

	"verif/lib/harness"
)

// Case is what a violation records and what -replay rebuilds.
type Case struct {
	Family string   `json:"family"`
	Seq    []int    `json:"seq"`    // indexes into the family's alphabet
	Chunks []string `json:"chunks"` // the same, readable
}

func caseName(f family, seq []int) string {
	ls := make([]string, len(seq))
	for i, s := range seq {
		ls[i] = f.Label(s)
	}
	return fmt.Sprintf("L%d/%s/%s", len(seq), f.Name(), strings.Join(ls, " | "))
}

func mkCase(f family, seq []int) Case {
	c := Case{Family: f.Name(), Seq: append([]int(nil), seq...)}
	for _, s := range seq {
		c.Chunks = append(c.Chunks, f.Label(s))
	}
	return c
}

var kindRank = map[string]int{"panic": 0, "nondeterministic": 1, "prefix-fails-only": 2, "rechunk": 3, "entry-points-differ": 8}

// classify names the class of a failing case: a function of the failing feature, not of the sequence.
func classify(f family, seq []int, fails []failure) (string, failure) {
	sort.SliceStable(fails, func(i, j int) bool {
		ri, oki := kindRank[fails[i].Kind]
		rj, okj := kindRank[fails[j].Kind]
		if !oki {
			ri = 9
		}
		if !okj {
			rj = 9
		}
		return ri < rj
	})
	p := fails[0]
	feats := map[string]bool{}
	for _, x := range f.Feats(seq) {
		feats[x] = true
	}
	if p.Kind == "panic" {
		switch {
		case feats[featNilInExtra]:
			return "extra-nil-value-panic", p
		case feats[featNilInMap]:
			return "map-nil-value-panic", p
		}
	}
	aspect := f.Name()
	aspect = strings.TrimPrefix(aspect, "msg-mix-")
	return p.Kind + "/" + aspect, p
}

// product enumerates all sequences of length n over [0,size) in lexicographic order.
func product(size, n int, visit func(seq []int) bool) {
	seq := make([]int, n)
	for {
		if !visit(seq) {
			return
		}
		i := n - 1
		for i >= 0 {
			seq[i]++
			if seq[i] < size {
				break
			}
			seq[i] = 0
			i--
		}
		if i < 0 {
			return
		}
	}
}

func main() {
	c := harness.Init("C14")
	registerCustom() // "call at process init": before any concatenation happens
	fams := families()

	maxLen := 0
	var desc []string
	for _, f := range fams {
		l := f.MaxLen(c.Quick())
		if l > maxLen {
			maxLen = l
		}
		if l > 0 {
			desc = append(desc, fmt.Sprintf("%s(|A|=%d,len<=%d)", f.Name(), f.Size(), l))
		}
	}
	c.Res.Rule = "a case is one chunk sequence (family, symbols); states = distinct canonical chunk sequences (chunk type + rendered chunks); " +
		"transitions = concat calls made on the implementation; non-trivial = sequences with at least two non-nil chunks"
	c.Res.Assumptions = []string{
		"a single chunk is returned as it is by the generic entry point (documented precondition of internal.ConcatItems: len > 1; compose.concatStreamReader does the same)",
		"error texts are not compared: the statement speaks of failing in the same cases",
		"nil and empty slices/maps are the same result; pointers are compared by what they point to",
		"the registered custom concat functions of the harness are associative themselves, so only the framework is judged",
		"the model (text, arguments, merge by index) is applied only when at least two real chunks are concatenated; chunks without an index, roles/names/ids, usage, finish reason and extras are judged by totality, determinism and re-chunking invariance only",
	}
	c.Res.Explanation = "Exhaustive enumeration of all chunk sequences per family: " + strings.Join(desc, ", ") +
		". Each sequence is concatenated through every entry point of its chunk type (messages: schema.ConcatMessages, schema.ConcatMessageStream over a pipe, " +
		"internal.ConcatItems, compiled graph stream-lambda -> invoke-lambda; other types: the last two). Oracle: no panic; 3 repetitions identical under a canonical rendering; " +
		"for every proper split i, concat(concat(c[:i]) ++ c[i:]) equals concat(c) or both fail, and a failing prefix implies a failing whole " +
		"(the graph entry is judged by no-panic, repetition, the model and agreement with internal.ConcatItems on the same chunks instead of re-chunking through the graph again); " +
		"independent model: text in arrival order, tool-call fragments merged by index in ascending order, arguments in arrival order."

	byName := map[string]family{}
	for _, f := range fams {
		byName[f.Name()] = f
		seen := map[string]bool{}
		for i := 0; i < f.Size(); i++ {
			if seen[f.Label(i)] {
				fmt.Fprintf(os.Stderr, "c14: duplicate symbol %q in family %s\n", f.Label(i), f.Name())
				os.Exit(2)
			}
			seen[f.Label(i)] = true
		}
	}

	if v := c.LoadReplay(); v != nil {
		b, _ := json.Marshal(v.Case)
		var cs Case
		if err := json.Unmarshal(b, &cs); err != nil || byName[cs.Family] == nil {
			fmt.Fprintln(os.Stderr, "c14: cannot decode the recorded case")
			os.Exit(2)
		}
		f := byName[cs.Family]
		for i, s := range cs.Seq {
			if s < 0 || s >= f.Size() || (i < len(cs.Chunks) && f.Label(s) != cs.Chunks[i]) {
				fmt.Fprintln(os.Stderr, "c14: the recorded case does not match the current alphabets")
				os.Exit(2)
			}
		}
		st := &stats{}
		var fails []failure
		c.Guard(v.Scenario, cs, 120*time.Second, func() error { fails = f.Eval(cs.Seq, 40, st); return nil })
		if len(fails) == 0 {
			c.ReplayExit(v.Scenario, nil)
		}
		sig, _ := classify(f, cs.Seq, fails)
		for _, x := range fails {
			fmt.Printf("  [%s] %s\n", x.Kind, x.Detail)
		}
		c.ReplayExit(v.Scenario, fmt.Errorf("class %s: %d failure(s), first: %s", sig, len(fails), fails[0].Detail))
	}

	perSig := map[string]int{}
	jr := &journal{}
	debug.SetGCPercent(400) // allocation-heavy, tiny live heap
	sampled := map[string]bool{}
	st := &stats{}
	stop := false
	for n := 1; n <= maxLen && !stop; n++ {
		for _, f := range fams {
			if f.MaxLen(c.Quick()) < n || stop {
				continue
			}
			product(f.Size(), n, func(seq []int) bool {
				name := ""
				if c.Only != "" {
					name = caseName(f, seq)
				}
				if !c.Mine(name) {
					return true
				}
				name = caseName(f, seq)
				if c.TimeUp() {
					stop = true
					return false
				}
				cs := mkCase(f, seq)
				jr.record(c, name, cs)
				var fails []failure
				before := st.calls
				c.Guard(name, cs, 120*time.Second, func() error { fails = f.Eval(seq, 3, st); return nil })
				c.Res.Evaluations++
				c.Res.Transitions += st.calls - before
				c.StateStr(f.Canon(seq))
				if f.RealChunks(seq) >= 2 {
					c.Res.Nontrivial++
				}
				c.Count("cases/"+f.Name(), 1)
				if len(fails) > 0 {
					sig, p := classify(f, seq, fails)
					c.Outcome("violation:" + sig)
					c.Count("violating_cases/"+sig, 1)
					limit := 2 // cases come simplest first: keep the smallest of each class (the harness keeps 20 per worker)
					if len(c.Res.Violations) >= 10 {
						limit = 1
					}
					if perSig[sig] < limit {
						perSig[sig]++
						c.Violate(harness.Violation{Scenario: name, Signature: sig, Case: cs, Msg: p.Detail})
					}
					return true
				}
				c.Outcome(f.Name() + ":" + st.lastOutcome)
				c.Res.Validated++
				if n >= 2 && !sampled[f.Name()] && f.RealChunks(seq) >= 2 {
					sampled[f.Name()] = true
					c.Sample(cs)
				}
				return true
			})
		}
	}
	c.Finish()
}

// journal does what harness.Ctx.Journal does (it names the case that is about to run, so that the driver can
// attribute a process crash to it) with one pwrite per case instead of create+write+close: the file stays open
// and every record is padded with spaces to at least the length of the previous one (still one JSON value).
type journal struct {
	f    *os.File
	last int
}

func (j *journal) record(c *harness.Ctx, name string, cs Case) {
	if c.Out == "" || c.Replay != "" {
		return
	}
	if j.f == nil {
		f, err := os.OpenFile(c.Out+".journal", os.O_CREATE|os.O_WRONLY|os.O_TRUNC, 0o644)
		if err != nil {
			c.Journal(name, cs)
			return
		}
		j.f = f
	}
	b, _ := json.Marshal(harness.Violation{Property: c.Property, Scenario: name, Signature: "process-crash", Case: cs,
		Msg: "the process died while running this case (a panic escaped into a goroutine)"})
	n := len(b)
	for len(b) < j.last {
		b = append(b, ' ')
	}
	j.last = n
	if len(b) > n {
		j.last = len(b)
	}
	j.f.WriteAt(b, 0)
}
