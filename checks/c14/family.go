package main

import (
	"fmt"
	"sort"
	"strings"
)

// sym is one chunk of an alphabet. mk builds a fresh value on every call (no value is ever shared between
// two concat calls, so nothing the implementation does to its inputs can leak into another call).
type sym[T any] struct {
	label  string
	canon  string // canonical rendering of the chunk (filled in lazily)
	mk     func() T
	absent bool     // a nil chunk (nil message / nil slice / nil map / nil pointer): not counted as a real chunk
	feats  []string // features of the chunk that a failure can be attributed to (see classify)
}

// entry is one public way of concatenating a chunk sequence of type T.
type entry[T any] struct {
	name   string
	f      func([]T) (T, error)
	sameAs string // see Eval: judged by agreement with this (direct) entry instead of by its own re-chunkings
}

// res is the observation of one concat call.
type res[T any] struct {
	val T
	err error
	pan string // non-empty: the call panicked with this value
}

func (r res[T]) failed() bool { return r.err != nil || r.pan != "" }

// canon renders the observation for comparison: every error is the same outcome (the property speaks about
// failing "in the same cases", not about error texts); a panic is never equal to an error.
func (r res[T]) canon() string {
	if r.pan != "" {
		return "PANIC"
	}
	if r.err != nil {
		return "ERR"
	}
	return render(r.val)
}

func (r res[T]) show() string {
	if r.pan != "" {
		return "PANIC(" + r.pan + ")"
	}
	if r.err != nil {
		return "ERR(" + r.err.Error() + ")"
	}
	return render(r.val)
}

// failure is one way in which a case broke the property.
type failure struct {
	Kind   string `json:"kind"` // panic | nondeterministic | rechunk | prefix-fails-only | model-*
	Entry  string `json:"entry"`
	Detail string `json:"detail"`
}

// family is the type-erased view the main loop works with.
type family interface {
	Name() string
	Size() int
	Label(i int) string
	MaxLen(quick bool) int
	// Eval runs every entry point on the sequence and judges it. reps = repetitions of the full concat.
	Eval(seq []int, reps int, st *stats) []failure
	RealChunks(seq []int) int
	Feats(seq []int) []string
	Canon(seq []int) string
}

type stats struct {
	calls       int64  // concat calls made on the implementation
	lastOutcome string // per entry point of the last case: v(alue) / e(rror) / p(anic)
}

type fam[T any] struct {
	name     string
	syms     []sym[T]
	entries  []entry[T]
	model    func(chunks []T, out T) []failure // independent model of the stated content; may be nil
	maxQuick int
	maxThor  int
}

func (f *fam[T]) Name() string       { return f.name }
func (f *fam[T]) Size() int          { return len(f.syms) }
func (f *fam[T]) Label(i int) string { return f.syms[i].label }
func (f *fam[T]) MaxLen(quick bool) int {
	if quick {
		return f.maxQuick
	}
	return f.maxThor
}

func (f *fam[T]) build(seq []int) []T {
	out := make([]T, len(seq))
	for i, s := range seq {
		out[i] = f.syms[s].mk()
	}
	return out
}

func (f *fam[T]) RealChunks(seq []int) int {
	n := 0
	for _, s := range seq {
		if !f.syms[s].absent {
			n++
		}
	}
	return n
}

func (f *fam[T]) Feats(seq []int) []string {
	set := map[string]bool{}
	for _, s := range seq {
		for _, x := range f.syms[s].feats {
			set[x] = true
		}
	}
	out := make([]string, 0, len(set))
	for k := range set {
		out = append(out, k)
	}
	sort.Strings(out)
	return out
}

// Canon is the canonical form of the chunk sequence itself (type + rendered chunks): two families that
// happen to contain the same chunk sequence count it as one state.
func (f *fam[T]) Canon(seq []int) string {
	var b strings.Builder
	var t T
	fmt.Fprintf(&b, "%T|", t)
	for _, s := range seq {
		if f.syms[s].canon == "" {
			f.syms[s].canon = render(f.syms[s].mk())
		}
		b.WriteString(f.syms[s].canon)
		b.WriteByte('|')
	}
	return b.String()
}

func (f *fam[T]) labels(seq []int) string {
	ls := make([]string, len(seq))
	for i, s := range seq {
		ls[i] = f.syms[s].label
	}
	return "[" + strings.Join(ls, ", ") + "]"
}

func call[T any](st *stats, fn func([]T) (T, error), in []T) (r res[T]) {
	st.calls++
	defer func() {
		if p := recover(); p != nil {
			r.pan = fmt.Sprint(p)
		}
	}()
	r.val, r.err = fn(in)
	return
}

// Eval is the oracle, clause by clause of the statement:
//
//	(1) no call panics;  (2) `reps` repetitions of concat(c) are identical;
//	(3) for every proper split point i: if concat(c[:i]) fails then concat(c) fails; otherwise
//	    concat(concat(c[:i]) ++ c[i:]) fails iff concat(c) fails and, when both succeed, they are equal;
//	(4) when concat(c) succeeds, the model of the stated content (text / arguments in arrival order,
//	    fragments merged by index) agrees.
//
// An entry with sameAs != "" (the compiled graph) is judged by (1), (2), (4) and, instead of running (3) through
// the graph again, by agreement with the named direct entry on the same chunk sequence (equal values or both
// fail): the concatenation is one function of the chunk sequence, whichever part of the framework performs it.
func (f *fam[T]) Eval(seq []int, reps int, st *stats) []failure {
	var fails []failure
	add := func(kind, entry, format string, a ...any) {
		fails = append(fails, failure{Kind: kind, Entry: entry, Detail: fmt.Sprintf(format, a...)})
	}
	n := len(seq)
	st.lastOutcome = ""
	type refT struct {
		r      res[T]
		canon  string
		stable bool
	}
	refs := map[string]refT{}
	anyPanic := false
	for _, e := range f.entries {
		if anyPanic && e.sameAs != "" {
			st.lastOutcome += "-"
			continue // the case is a violation already; the graph would only recover the same panic
		}
		full := make([]res[T], 0, reps)
		canons := make([]string, 0, reps)
		for k := 0; k < reps; k++ {
			r := call(st, e.f, f.build(seq))
			full = append(full, r)
			canons = append(canons, r.canon())
			if r.pan != "" {
				anyPanic = true
				break // a panic is a violation whatever the other repetitions do
			}
		}
		switch {
		case full[0].pan != "":
			st.lastOutcome += "p"
		case full[0].err != nil:
			st.lastOutcome += "e"
		default:
			st.lastOutcome += "v"
		}
		sawPanic := false
		for _, r := range full {
			if r.pan != "" && !sawPanic {
				sawPanic = true
				add("panic", e.name, "%s(%s) panicked: %s", e.name, f.labels(seq), r.pan)
			}
		}
		differ := false
		for k := 1; k < len(canons); k++ {
			if canons[k] != canons[0] {
				differ = true
			}
		}
		if differ {
			add("nondeterministic", e.name, "%s(%s) gave different results on %d repetitions of the same chunk sequence", e.name, f.labels(seq), reps)
			continue // no stable reference to compare re-chunkings with
		}
		ref, refCanon := full[0], canons[0]
		refs[e.name] = refT{ref, refCanon, true}
		if sawPanic {
			continue // the panic is the violation; nothing to compare re-chunkings with
		}
		if e.sameAs == "" && !ref.failed() && n >= 2 {
			// the same chunk OBJECTS concatenated again (copied streams hand the same chunk pointers to several
			// consumers, and re-chunking naturally reuses them): the result must be the same function of the sequence
			objs := f.build(seq)
			a := call(st, e.f, objs)
			b := call(st, e.f, objs)
			if a.pan == "" && b.pan == "" && (a.canon() != refCanon || b.canon() != refCanon) {
				add("same-chunks-differ", e.name, "%s(%s) = %s, but concatenating the very same chunk objects a second time gives %s (first time %s): the result is not a function of the chunk sequence",
					e.name, f.labels(seq), ref.show(), b.show(), a.show())
			}
			// ... and the chunk objects are still the chunks that were produced: every other holder of the same pointers
			// (the other copies of the stream, a reader that takes a prefix only) must see the sequence it was given
			if a.pan == "" && b.pan == "" {
				fresh := f.build(seq)
				for i := range objs {
					if got, want := render(objs[i]), render(fresh[i]); got != want {
						add("same-chunks-differ", e.name, "%s(%s) wrote into chunk %d of its input: it now reads %s, it was produced as %s (every other reader of the same chunk objects sees another chunk sequence than the one produced)",
							e.name, f.labels(seq), i, got, want)
						break
					}
				}
			}
		}
		if e.sameAs != "" {
			if o, ok := refs[e.sameAs]; ok && o.stable && o.r.pan == "" && o.canon != refCanon {
				add("entry-points-differ", e.name, "%s(%s) = %s but %s of the same chunks = %s", e.name, f.labels(seq), ref.show(), e.sameAs, o.r.show())
			}
		} else {
			for i := 1; i < n; i++ {
				p := call(st, e.f, f.build(seq[:i]))
				if p.pan != "" {
					add("panic", e.name, "%s(%s) panicked: %s", e.name, f.labels(seq[:i]), p.pan)
					break // reported on its own (shorter) sequence as well
				}
				if p.err != nil {
					if !ref.failed() {
						add("prefix-fails-only", e.name, "%s fails on the prefix %s (%v) but succeeds on the whole sequence %s = %s",
							e.name, f.labels(seq[:i]), p.err, f.labels(seq), ref.show())
					}
					continue
				}
				rest := append([]T{p.val}, f.build(seq[i:])...)
				r := call(st, e.f, rest)
				if r.pan != "" {
					add("panic", e.name, "%s(concat(%s) ++ %s) panicked: %s", e.name, f.labels(seq[:i]), f.labels(seq[i:]), r.pan)
					break
				}
				if r.canon() != refCanon {
					add("rechunk", e.name, "%s: concatenating %s first and then %s gives %s, but concatenating %s at once gives %s",
						e.name, f.labels(seq[:i]), f.labels(seq[i:]), r.show(), f.labels(seq), ref.show())
				}
			}
		}
		if !ref.failed() && f.model != nil {
			for _, mf := range f.model(f.build(seq), ref.val) {
				mf.Entry = e.name
				mf.Detail = fmt.Sprintf("%s(%s) = %s: %s", e.name, f.labels(seq), ref.show(), mf.Detail)
				fails = append(fails, mf)
			}
		}
	}
	return fails
}
