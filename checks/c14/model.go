package main

import (
	"fmt"
	"sort"
	"strings"

	"github.com/cloudwego/eino/schema"
)

// The independent model states only what the property text states about a successful concatenation:
//   - text keeps arrival order                      (Message.Content, string chunks)
//   - tool-call arguments keep arrival order        (per index)
//   - tool-call fragments are merged by index       (one resulting call per distinct index; the resulting
//     calls are listed by ascending index)
//
//   - fragments without an index are never merged; their arguments keep arrival order too (checked as the RELATIVE
//     order of those fragments in the result, and only when their arguments are pairwise distinct)
//
// It says nothing about where the fragments without an index stand, about roles/names/ids, usage, finish reason or extras,
// and nothing about when an error is due: those are covered only by clauses (1)-(3).
// It is applied only where at least two real (non-nil) chunks are concatenated: a single chunk is returned
// as it is by the stream entry points and the statement does not say that it must be normalised.

func mf(kind, format string, a ...any) failure {
	return failure{Kind: kind, Detail: fmt.Sprintf(format, a...)}
}

func msgModel(chunks []*schema.Message, out *schema.Message) []failure {
	real := 0
	for _, c := range chunks {
		if c == nil {
			return nil // what a nil chunk means is not stated (the implementation rejects it)
		}
		real++
	}
	if real < 2 {
		return nil
	}
	if out == nil {
		return []failure{mf("model-content", "the result is a nil message")}
	}
	var fails []failure
	var text strings.Builder
	groups := map[int][]string{}
	var order []int
	for _, c := range chunks {
		text.WriteString(c.Content)
		for _, tc := range c.ToolCalls {
			if tc.Index == nil {
				continue
			}
			if _, ok := groups[*tc.Index]; !ok {
				order = append(order, *tc.Index)
			}
			groups[*tc.Index] = append(groups[*tc.Index], tc.Function.Arguments)
		}
	}
	// fragments without an index: relative arrival order
	var noIdxWant, noIdxGot []string
	distinct := map[string]bool{}
	allDistinct := true
	for _, c := range chunks {
		for _, tc := range c.ToolCalls {
			if tc.Index == nil {
				if distinct[tc.Function.Arguments] {
					allDistinct = false
				}
				distinct[tc.Function.Arguments] = true
				noIdxWant = append(noIdxWant, tc.Function.Arguments)
			}
		}
	}
	for _, tc := range out.ToolCalls {
		if tc.Index == nil {
			noIdxGot = append(noIdxGot, tc.Function.Arguments)
		}
	}
	if allDistinct && len(noIdxWant) > 1 && strings.Join(noIdxWant, "\x00") != strings.Join(noIdxGot, "\x00") {
		fails = append(fails, mf("model-toolcall-noindex-order", "tool calls without an index carry the arguments %q in the result, their arrival order is %q", noIdxGot, noIdxWant))
	}
	if out.Content != text.String() {
		fails = append(fails, mf("model-content", "content is %q, the chunks' text in arrival order is %q", out.Content, text.String()))
	}
	sort.Ints(order)
	var gotIdx []int
	seen := map[int]int{}
	for _, tc := range out.ToolCalls {
		if tc.Index == nil {
			continue
		}
		gotIdx = append(gotIdx, *tc.Index)
		seen[*tc.Index]++
	}
	merged := len(seen) == len(groups)
	for _, ix := range order {
		if seen[ix] != 1 {
			merged = false
		}
	}
	if !merged {
		fails = append(fails, mf("model-toolcall-merge", "tool calls with an index in the result: %v; the fragments carry the indexes %v (one merged call per index expected)", gotIdx, order))
		return fails
	}
	if !sort.IntsAreSorted(gotIdx) {
		fails = append(fails, mf("model-toolcall-order", "merged tool calls are listed in index order %v, expected ascending %v", gotIdx, order))
	}
	for _, tc := range out.ToolCalls {
		if tc.Index == nil {
			continue
		}
		want := strings.Join(groups[*tc.Index], "")
		if tc.Function.Arguments != want {
			fails = append(fails, mf("model-toolcall-args", "arguments of tool call index %d are %q, the fragments' arguments in arrival order are %q", *tc.Index, tc.Function.Arguments, want))
		}
	}
	return fails
}

func strModel(chunks []string, out string) []failure {
	if len(chunks) < 2 {
		return nil
	}
	want := strings.Join(chunks, "")
	if out != want {
		return []failure{mf("model-content", "result is %q, the chunks in arrival order are %q", out, want)}
	}
	return nil
}

// listModel: message lists are concatenated position by position; the message model is applied to every
// position that has at least two real messages (only when all chunks have the same length and the result
// has that length too; everything else is left to clauses (1)-(3)).
func listModel(chunks [][]*schema.Message, out []*schema.Message) []failure {
	if len(chunks) < 2 {
		return nil
	}
	l := len(chunks[0])
	for _, c := range chunks {
		if len(c) != l {
			return nil
		}
	}
	if len(out) != l {
		return nil
	}
	var fails []failure
	for pos := 0; pos < l; pos++ {
		var real []*schema.Message
		for _, c := range chunks {
			if c[pos] != nil {
				real = append(real, c[pos])
			}
		}
		if len(real) < 2 {
			continue
		}
		for _, f := range msgModel(real, out[pos]) {
			f.Detail = fmt.Sprintf("position %d: %s", pos, f.Detail)
			fails = append(fails, f)
		}
	}
	return fails
}

// mapModel: per key, when every chunk value under that key is a string / a non-nil message.
func mapModel(chunks []map[string]any, out map[string]any) []failure {
	if len(chunks) < 2 {
		return nil
	}
	vals := map[string][]any{}
	for _, c := range chunks {
		for k, v := range c {
			vals[k] = append(vals[k], v)
		}
	}
	keys := make([]string, 0, len(vals))
	for k := range vals {
		keys = append(keys, k)
	}
	sort.Strings(keys)
	var fails []failure
	for _, k := range keys {
		vs := vals[k]
		if len(vs) < 2 {
			continue
		}
		var strs []string
		var msgs []*schema.Message
		for _, v := range vs {
			switch x := v.(type) {
			case string:
				strs = append(strs, x)
			case *schema.Message:
				if x != nil {
					msgs = append(msgs, x)
				}
			}
		}
		if len(strs) == len(vs) {
			got, ok := out[k].(string)
			if !ok {
				fails = append(fails, mf("model-content", "key %q: result value is %s, expected the joined string", k, render(out[k])))
				continue
			}
			for _, f := range strModel(strs, got) {
				f.Detail = fmt.Sprintf("key %q: %s", k, f.Detail)
				fails = append(fails, f)
			}
		}
		if len(msgs) == len(vs) {
			got, _ := out[k].(*schema.Message)
			for _, f := range msgModel(msgs, got) {
				f.Detail = fmt.Sprintf("key %q: %s", k, f.Detail)
				fails = append(fails, f)
			}
		}
	}
	return fails
}

func mapStrModel(chunks []map[string]string, out map[string]string) []failure {
	if len(chunks) < 2 {
		return nil
	}
	want := map[string]string{}
	n := map[string]int{}
	for _, c := range chunks {
		for k, v := range c {
			want[k] += v
			n[k]++
		}
	}
	keys := make([]string, 0, len(want))
	for k := range want {
		keys = append(keys, k)
	}
	sort.Strings(keys)
	var fails []failure
	for _, k := range keys {
		if n[k] >= 2 && out[k] != want[k] {
			fails = append(fails, mf("model-content", "key %q: result is %q, the chunks in arrival order are %q", k, out[k], want[k]))
		}
	}
	return fails
}
