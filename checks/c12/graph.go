package main

import (
	"context"
	"fmt"
	"reflect"
	"sync"

	"github.com/cloudwego/eino/compose"
)

// memStore is the in-memory byte store handed to compose.WithCheckPointStore.
type memStore struct {
	mu sync.Mutex
	m  map[string][]byte
}

func (s *memStore) Get(_ context.Context, id string) ([]byte, bool, error) {
	s.mu.Lock()
	defer s.mu.Unlock()
	b, ok := s.m[id]
	return b, ok, nil
}

func (s *memStore) Set(_ context.Context, id string, b []byte) error {
	s.mu.Lock()
	defer s.mu.Unlock()
	s.m[id] = append([]byte(nil), b...)
	return nil
}

func (s *memStore) drop(id string) {
	s.mu.Lock()
	defer s.mu.Unlock()
	delete(s.m, id)
}

// The interrupt/resume stage (public API only). One DAG, compiled once:
//
//	START -> A (identity; pre-handler copies the input into the state; output key "a") -> C
//	START -> B1 (identity) -> B2 (identity; output key "b")                             -> C (returns its input map) -> END
//
// with an interrupt before B2. At the interrupt the value sits in all three parts of the checkpoint: C's
// channel (A's output, waiting for B2), the pending input of B2, and the state. The run is resumed from the
// store; the state is observed by a state modifier, the other two through C's output.
type graphRig struct {
	store *memStore
	run   compose.Runnable[any, any]
	seq   int
}

func newGraphRig() (*graphRig, error) {
	ctx := context.Background()
	ident := func(_ context.Context, in any) (any, error) { return in, nil }
	g := compose.NewGraph[any, any](compose.WithGenLocalState(func(context.Context) *GState { return &GState{} }))
	if err := g.AddLambdaNode("A", compose.InvokableLambda(ident), compose.WithOutputKey("a"),
		compose.WithStatePreHandler(func(_ context.Context, in any, st *GState) (any, error) {
			st.V = in
			return in, nil
		})); err != nil {
		return nil, err
	}
	if err := g.AddLambdaNode("B1", compose.InvokableLambda(ident)); err != nil {
		return nil, err
	}
	if err := g.AddLambdaNode("B2", compose.InvokableLambda(ident), compose.WithOutputKey("b")); err != nil {
		return nil, err
	}
	if err := g.AddLambdaNode("C", compose.InvokableLambda(func(_ context.Context, in map[string]any) (any, error) { return in, nil })); err != nil {
		return nil, err
	}
	for _, e := range [][2]string{{compose.START, "A"}, {compose.START, "B1"}, {"B1", "B2"}, {"A", "C"}, {"B2", "C"}, {"C", compose.END}} {
		if err := g.AddEdge(e[0], e[1]); err != nil {
			return nil, err
		}
	}
	st := &memStore{m: map[string][]byte{}}
	r, err := g.Compile(ctx, compose.WithNodeTriggerMode(compose.AllPredecessor), compose.WithCheckPointStore(st), compose.WithInterruptBeforeNodes([]string{"B2"}))
	if err != nil {
		return nil, err
	}
	return &graphRig{store: st, run: r}, nil
}

// gres is what the interrupt/resume stage observed.
type gres struct {
	kind  string // ok | loud-save | loud-restore | mismatch | panic | harness
	slot  string // mismatch: state | pending-input | channel
	diff  *vres
	msg   string
	steps int
}

// text is the deterministic description of the observation.
func (g *gres) text() string {
	if g.kind == "mismatch" && g.diff != nil && g.msg == "" {
		return fmt.Sprintf("after interrupt + resume through the checkpoint store the %s value differs: %s", g.slot, g.diff.text())
	}
	return g.msg
}

// roundTripGraph writes the value into a checkpoint by a real interrupt and reads it back by a real resume.
func (g *graphRig) roundTrip(in reflect.Value) (res *gres) {
	res = &gres{}
	g.seq++
	id := fmt.Sprintf("cp%d", g.seq)
	defer g.store.drop(id)
	stage := "the interrupted run"
	defer func() {
		if r := recover(); r != nil {
			res.kind, res.msg = "panic", fmt.Sprintf("panic escaped %s: %s", stage, scrub(fmt.Sprint(r)))
		}
	}()
	ctx := context.Background()
	v := in.Interface()
	res.steps = 1
	_, err := g.run.Invoke(ctx, v, compose.WithCheckPointID(id))
	if err == nil {
		res.kind, res.msg = "harness", "the first run was not interrupted"
		return res
	}
	if _, ok := compose.ExtractInterruptInfo(err); !ok {
		res.kind, res.msg = "loud-save", "the interrupted run failed instead of saving: "+scrub(err.Error())
		return res
	}
	if _, ok, _ := g.store.Get(ctx, id); !ok {
		res.kind, res.msg = "harness", "interrupted, but nothing was written to the store"
		return res
	}
	stage = "the resumed run"
	res.steps = 2
	var state any
	seen := false
	out, err := g.run.Invoke(ctx, v, compose.WithCheckPointID(id), compose.WithStateModifier(func(_ context.Context, _ compose.NodePath, s any) error {
		if gs, ok := s.(*GState); ok {
			state, seen = gs.V, true
		}
		return nil
	}))
	if err != nil {
		res.kind, res.msg = "loud-restore", "the resumed run failed: "+scrub(err.Error())
		return res
	}
	if !seen {
		res.kind, res.msg = "mismatch", "the restored state is not a *GState (or no state was restored)"
		res.slot, res.diff = "state", &vres{kind: "type"}
		return res
	}
	m, ok := out.(map[string]any)
	if !ok {
		res.kind, res.msg = "harness", fmt.Sprintf("unexpected output type %T", out)
		return res
	}
	for _, sl := range []struct {
		name string
		got  any
	}{{"state", state}, {"pending-input", m["b"]}, {"channel", m["a"]}} {
		d := compareTop(in, sl.got)
		if d.kind != "ok" {
			res.kind, res.slot, res.diff = "mismatch", sl.name, d
			return res
		}
	}
	res.kind = "ok"
	return res
}
