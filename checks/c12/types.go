package main

import (
	"fmt"
	"math"
	"reflect"

	"github.com/cloudwego/eino/compose"
	"github.com/cloudwego/eino/verifx"
)

// ---------------------------------------------------------------------------------------------------
// The fixed universe of registered named types.

type NInt int64
type NStr string
type NFloat float64
type NBool bool

// SBasic: fields of basic kinds and a named basic type.
type SBasic struct {
	B   bool
	I   int
	I64 int64
	U64 uint64
	F   float64
	S   string
	N   NStr
}

// SKey: a comparable struct, used as a map key and as a value. Its fields are omitted from JSON when empty (like
// schema.FunctionCall / schema.ToolCall), so the textual form of a map key depends on which fields are set.
type SKey struct {
	A string `json:"a,omitempty"`
	B int    `json:"b,omitempty"`
}

// SKeyAny: a comparable struct with an interface-typed field, used as a map key and as a value.
type SKeyAny struct {
	X any
}

// SPtr: pointer fields (depth 1 and 2, to basic and to struct).
type SPtr struct {
	P  *int
	PP **int
	PS *string
	PT *SKey
}

// SCont: slice and map fields.
type SCont struct {
	L  []int
	M  map[string]int
	LP []*SKey
	MK map[SKey]string
}

// SAny: interface-typed field and interface-typed elements.
type SAny struct {
	A any
	L []any
	M map[string]any
}

// SNest: nested struct by value, by pointer, in a slice, in a map.
type SNest struct {
	In SBasic
	P  *SBasic
	L  []SKey
	M  map[string]SKey
}

// SUnexp: an unexported field between exported ones (outside the statement's universe; must not disturb the rest).
type SUnexp struct {
	A string
	b int
	C int
}

// SPtrCont: typed fields that are pointers to containers (the pointed-to container types are registered).
type SPtrCont struct {
	PM *map[string]int
	PL *[]string
}

// SEmpty: no fields.
type SEmpty struct{}

// SNode: recursive.
type SNode struct {
	V    int
	Next *SNode
	Kids []*SNode
}

// Box: the "interface-typed field holding any shape" constructor of the grammar.
type Box struct {
	V any
}

// GState is the graph state of the interrupt/resume stage.
type GState struct {
	V any
}

var (
	anyType = reflect.TypeOf((*any)(nil)).Elem()
	boxType = reflect.TypeOf(Box{})
)

// ---------------------------------------------------------------------------------------------------
// Leaves of the shape grammar.

type bval struct {
	v       any
	class   string // value class used in signatures (a class, not the concrete value)
	special bool   // NaN / Inf: "may error"
	hard    bool   // member of the reduced domain used inside struct fields (together with the first value)
}

type leafDef struct {
	name   string
	kind   string // basic | named | struct
	under  string // named: underlying kind
	t      reflect.Type
	vals   []bval     // basic / named
	sdef   *structDef // struct
	inThor bool       // member of the reduced leaf alphabet used at depth 4 (thorough)
}

type fieldDef struct {
	name     string
	shapes   []*Shape // the field's static type is any: dynamic contents; otherwise exactly one shape = the static type
	isAny    bool
	noSet    bool // unexported: built through extra values only
	fullLeaf bool
}

type structDef struct {
	fields []fieldDef
	extra  func() []*Val // additional hand-written values (mixed interface contents, recursion, unexported field set)
}

var leaves []*leafDef
var leafByName = map[string]*leafDef{}

func addLeaf(l *leafDef) {
	leaves = append(leaves, l)
	leafByName[l.name] = l
}

func L(name string) *Shape          { return &Shape{K: "leaf", Leaf: name} }
func P(e *Shape) *Shape             { return &Shape{K: "ptr", Elem: e} }
func Sl(e *Shape) *Shape            { return &Shape{K: "slice", Elem: e} }
func SlA(e *Shape) *Shape           { return &Shape{K: "slice", Elem: e, Any: true} }
func Mp(k string, e *Shape) *Shape  { return &Shape{K: "map", Key: k, Elem: e} }
func MpA(k string, e *Shape) *Shape { return &Shape{K: "map", Key: k, Elem: e, Any: true} }
func Bx(e *Shape) *Shape            { return &Shape{K: "box", Elem: e} }

// registerAll registers every named type through the public registration function and returns the errors.
func registerAll() []string {
	var errs []string
	chk := func(name string, err error) {
		if err != nil {
			errs = append(errs, fmt.Sprintf("register %s: %v", name, err))
		}
	}
	chk("NInt", compose.RegisterSerializableType[NInt]("c12_NInt"))
	chk("NStr", compose.RegisterSerializableType[NStr]("c12_NStr"))
	chk("NFloat", compose.RegisterSerializableType[NFloat]("c12_NFloat"))
	chk("NBool", compose.RegisterSerializableType[NBool]("c12_NBool"))
	chk("SBasic", compose.RegisterSerializableType[SBasic]("c12_SBasic"))
	chk("SKey", compose.RegisterSerializableType[SKey]("c12_SKey"))
	chk("SKeyAny", compose.RegisterSerializableType[SKeyAny]("c12_SKeyAny"))
	chk("SPtr", compose.RegisterSerializableType[SPtr]("c12_SPtr"))
	chk("SCont", compose.RegisterSerializableType[SCont]("c12_SCont"))
	chk("SAny", compose.RegisterSerializableType[SAny]("c12_SAny"))
	chk("SNest", compose.RegisterSerializableType[SNest]("c12_SNest"))
	chk("SUnexp", compose.RegisterSerializableType[SUnexp]("c12_SUnexp"))
	chk("SPtrCont", compose.RegisterSerializableType[SPtrCont]("c12_SPtrCont"))
	chk("SEmpty", compose.RegisterSerializableType[SEmpty]("c12_SEmpty"))
	chk("SNode", compose.RegisterSerializableType[SNode]("c12_SNode"))
	chk("Box", compose.RegisterSerializableType[Box]("c12_Box"))
	chk("GState", compose.RegisterSerializableType[GState]("c12_GState"))
	// two unnamed container types registered explicitly: pointers to them and containers of them are then
	// "built from registered types" in the implementation's own sense (its look-ups succeed)
	chk("[]string", compose.RegisterSerializableType[[]string]("c12_strs"))
	chk("map[string]int", compose.RegisterSerializableType[map[string]int]("c12_msi"))
	// the white-box entry point and the public one share one registry: registering again must be refused
	if verifx.C12Register[SKey]("c12_SKey_again") == nil {
		errs = append(errs, "verifx.C12Register and compose.RegisterSerializableType do not share a registry")
	}
	return errs
}

// registeredComposite: unnamed container types registered explicitly above.
func registeredComposite(s *Shape) bool {
	if s.K == "slice" && !s.Any && s.Elem.K == "leaf" && s.Elem.Leaf == "string" {
		return true
	}
	if s.K == "map" && !s.Any && s.Key == "string" && s.Elem.K == "leaf" && s.Elem.Leaf == "int" {
		return true
	}
	return false
}

var mapKeys = []string{"string", "int", "bool", "NStr", "SKey", "SKeyAny", "any"}

func init() {
	const big = int64(1)<<53 + 1
	b := func(v any, class string) bval { return bval{v: v, class: class} }
	h := func(v any, class string) bval { return bval{v: v, class: class, hard: true} }
	sp := func(v any, class string) bval { return bval{v: v, class: class, special: true} }
	basic := func(name string, thor bool, vals ...bval) {
		addLeaf(&leafDef{name: name, kind: "basic", t: reflect.TypeOf(vals[0].v), vals: vals, inThor: thor})
	}
	basic("bool", true, b(false, "zero"), h(true, "one"))
	basic("int", true, b(int(0), "zero"), b(int(1), "one"), b(int(-1), "neg"), b(int(math.MaxInt64), "max"), b(int(math.MinInt64), "min"), h(int(big), "big"))
	basic("int8", false, b(int8(0), "zero"), b(int8(1), "one"), b(int8(-1), "neg"), b(int8(math.MaxInt8), "max"), h(int8(math.MinInt8), "min"))
	basic("int16", false, b(int16(0), "zero"), b(int16(1), "one"), b(int16(-1), "neg"), b(int16(math.MaxInt16), "max"), h(int16(math.MinInt16), "min"))
	basic("int32", false, b(int32(0), "zero"), b(int32(1), "one"), b(int32(-1), "neg"), b(int32(math.MaxInt32), "max"), h(int32(math.MinInt32), "min"))
	basic("int64", true, b(int64(0), "zero"), b(int64(1), "one"), b(int64(-1), "neg"), b(int64(math.MaxInt64), "max"), b(int64(math.MinInt64), "min"), h(big, "big"), b(-big, "negbig"))
	basic("uint", false, b(uint(0), "zero"), b(uint(1), "one"), h(uint(math.MaxUint64), "max"), b(uint(big), "big"))
	basic("uint8", true, b(uint8(0), "zero"), b(uint8(1), "one"), h(uint8(math.MaxUint8), "max"))
	basic("uint16", false, b(uint16(0), "zero"), b(uint16(1), "one"), h(uint16(math.MaxUint16), "max"))
	basic("uint32", false, b(uint32(0), "zero"), b(uint32(1), "one"), h(uint32(math.MaxUint32), "max"))
	basic("uint64", true, b(uint64(0), "zero"), b(uint64(1), "one"), h(uint64(math.MaxUint64), "max"), b(uint64(big), "big"))
	basic("float32", false, b(float32(0), "zero"), b(float32(1), "one"), b(float32(-1), "neg"), h(float32(0.1), "frac"), b(float32(math.MaxFloat32), "max"), b(float32(math.SmallestNonzeroFloat32), "tiny"),
		sp(float32(math.NaN()), "nan"), sp(float32(math.Inf(1)), "inf"), sp(float32(math.Inf(-1)), "neginf"))
	basic("float64", true, b(float64(0), "zero"), b(float64(1), "one"), b(float64(-1), "neg"), h(float64(0.1), "frac"), b(float64(1<<53), "big"), b(float64(1e21), "exp"), b(math.MaxFloat64, "max"), b(math.SmallestNonzeroFloat64, "tiny"),
		sp(math.NaN(), "nan"), sp(math.Inf(1), "inf"), sp(math.Inf(-1), "neginf"))
	basic("string", true, b("", "empty"), b("a", "ascii"), b("é", "nonascii"), b("\"\\/", "escape"), b("\u2028", "linesep"), b("<&>\x00\n", "ctrl-html"), b("😀", "astral"), h("é\"\\\u2028<😀", "mixed"))

	named := func(name, under string, thor bool, vals ...bval) {
		addLeaf(&leafDef{name: name, kind: "named", under: under, t: reflect.TypeOf(vals[0].v), vals: vals, inThor: thor})
	}
	named("NInt", "int64", true, b(NInt(0), "zero"), b(NInt(1), "one"), b(NInt(math.MaxInt64), "max"), h(NInt(big), "big"))
	named("NStr", "string", true, b(NStr(""), "empty"), b(NStr("n"), "ascii"), h(NStr("é\"\u2028"), "mixed"))
	named("NFloat", "float64", false, b(NFloat(0), "zero"), h(NFloat(0.1), "frac"), b(NFloat(1e21), "exp"))
	named("NBool", "bool", false, b(NBool(false), "zero"), h(NBool(true), "one"))

	str := func(name string, thor bool, v any, d *structDef) {
		addLeaf(&leafDef{name: name, kind: "struct", t: reflect.TypeOf(v), sdef: d, inThor: thor})
	}
	f := func(name string, s *Shape) fieldDef { return fieldDef{name: name, shapes: []*Shape{s}} }
	fa := func(name string, contents ...*Shape) fieldDef {
		return fieldDef{name: name, shapes: contents, isAny: true}
	}

	str("SBasic", true, SBasic{}, &structDef{fields: []fieldDef{
		f("B", L("bool")), f("I", L("int")), f("I64", L("int64")), f("U64", L("uint64")), f("F", L("float64")), f("S", L("string")), f("N", L("NStr")),
	}})
	str("SKey", true, SKey{}, &structDef{fields: []fieldDef{f("A", L("string")), f("B", L("int"))}})
	str("SKeyAny", false, SKeyAny{}, &structDef{fields: []fieldDef{fa("X", L("int"), L("string"), L("float64"), L("NStr"), L("SKey"))}})
	str("SPtr", true, SPtr{}, &structDef{fields: []fieldDef{
		f("P", P(L("int"))), f("PP", P(P(L("int")))), f("PS", P(L("string"))), f("PT", P(L("SKey"))),
	}})
	str("SCont", true, SCont{}, &structDef{fields: []fieldDef{
		f("L", Sl(L("int"))), f("M", Mp("string", L("int"))), f("LP", Sl(P(L("SKey")))), f("MK", Mp("SKey", L("string"))),
	}})
	str("SAny", true, SAny{}, &structDef{
		fields: []fieldDef{
			fa("A", L("int"), L("string"), L("SKey"), P(L("SKey")), Sl(L("int")), MpA("string", L("int"))),
			f("L", SlA(L("int"))),
			f("M", MpA("string", L("string"))),
		},
		extra: func() []*Val {
			k := &SKey{A: "k", B: 2}
			return []*Val{
				handVal(L("SAny"), SAny{L: []any{1, "a", nil, SKey{A: "x"}, k, []int{1}, map[string]any{"k": true}}}),
				handVal(L("SAny"), SAny{M: map[string]any{"i": int64(1)<<53 + 1, "s": "é", "n": nil, "p": k, "l": []any{uint8(1), nil}}}),
			}
		},
	})
	str("SNest", false, SNest{}, &structDef{fields: []fieldDef{
		f("In", L("SBasic")), f("P", P(L("SBasic"))), f("L", Sl(L("SKey"))), f("M", Mp("string", L("SKey"))),
	}})
	str("SUnexp", false, SUnexp{}, &structDef{
		fields: []fieldDef{f("A", L("string")), {name: "b", noSet: true}, f("C", L("int"))},
		extra: func() []*Val {
			return []*Val{handVal(L("SUnexp"), SUnexp{A: "a", b: 7, C: 1})}
		},
	})
	str("SPtrCont", true, SPtrCont{}, &structDef{fields: []fieldDef{
		f("PM", P(Mp("string", L("int")))), f("PL", P(Sl(L("string")))),
	}})
	str("SEmpty", false, SEmpty{}, &structDef{})
	str("SNode", false, SNode{}, &structDef{
		fields: []fieldDef{f("V", L("int"))},
		extra: func() []*Val {
			return []*Val{
				handVal(L("SNode"), SNode{V: 1, Next: &SNode{V: 2, Next: &SNode{V: 3}}}),
				handVal(L("SNode"), SNode{V: 1, Kids: []*SNode{{V: 2, Kids: []*SNode{{V: 3}}}, nil, {V: 4}}}),
			}
		},
	})
}

// handVal wraps a hand-written value (no sub-values to try alone).
func handVal(s *Shape, v any) *Val {
	return &Val{S: s, RV: reflect.ValueOf(v)}
}
