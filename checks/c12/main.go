// C12 — checkpoint serialisation round-trips every supported value or fails loudly (Engine R).
//
// Exhaustive enumeration of type shapes by a grammar (shapes.go) over a fixed universe of registered types
// (types.go); every value of every shape's boundary domain is pushed through the real encoder and decoder
// (internal/serialization, reached through the overlaid package verifx) and judged by the statement's oracle
// (oracle.go); every shape up to depth 2 is additionally written and read back by a real interrupt + resume of
// a compiled graph with an in-memory checkpoint store (graph.go).
package main

import (
	"encoding/json"
	"errors"
	"fmt"
	"os"
	"runtime/debug"
	"time"

	"verif/lib/harness"
)

// caseRec is the replayable description of one case.
type caseRec struct {
	Shape *Shape `json:"shape"`
	Val   int    `json:"val"`   // index in the shape's value domain
	Graph bool   `json:"graph"` // the interrupt/resume stage is part of the case
	Type  string `json:"type"`  // for the reader
	Value string `json:"value"` // for the reader
}

type caseRes struct {
	wb      *vres
	g       *gres
	sig     string
	msg     func() string
	outcome string
	steps   int
	bindOK  bool
	infra   string
}

var rig *graphRig

// evalCase runs one case and judges it. sig == "" means the property held.
func evalCase(v *Val, withGraph bool) *caseRes {
	r := &caseRes{bindOK: true}
	r.wb = roundTrip(v.RV)
	r.steps = r.wb.steps
	r.outcome = r.wb.kind
	wbFail := failKind(v, r.wb)
	head := func() string { return fmt.Sprintf("%s = %s", v.S.Type(), shortStr(render(v.RV), 400)) }
	var min *Val
	var minRes *vres
	if wbFail != "" {
		r.sig, min, minRes = attribute(v, r.wb)
	}
	gFail := ""
	var g *gres
	if withGraph {
		g = rig.roundTrip(v.RV)
		r.g = g
		r.steps += g.steps
		r.outcome += "|" + g.kind
		switch g.kind {
		case "harness":
			r.infra = fmt.Sprintf("interrupt/resume stage for %s: %s", head(), g.msg)
			return r
		case "mismatch":
			gFail = g.diff.kind
		case "panic":
			gFail = "panic"
		case "loud-save", "loud-restore":
			if v.mustSucceed() {
				gFail = "error"
			}
		}
		// binding: the checkpoint path must show the verdict of the white-box entry points
		switch r.wb.kind {
		case "ok":
			r.bindOK = g.kind == "ok"
		case "loud":
			r.bindOK = g.kind == "loud-save" || g.kind == "loud-restore"
		case "panic":
			r.bindOK = g.kind == "panic" || g.kind == "loud-restore" || g.kind == "loud-save"
		default:
			r.bindOK = g.kind == "mismatch"
		}
		if wbFail == "" && gFail != "" {
			d := g.diff
			if d == nil {
				d = &vres{kind: gFail}
			}
			r.sig = "checkpoint-only:" + classify(v, d) + "/" + gFail
		}
	}
	if r.sig == "" {
		return r
	}
	r.msg = func() string {
		var m string
		if wbFail != "" {
			m = fmt.Sprintf("[%s] %s: %s", r.sig, head(), describe(wbFail, r.wb))
			if min != v {
				m += fmt.Sprintf(" || minimal failing sub-value, written on its own: %s = %s: %s", min.S.Type(), shortStr(render(min.RV), 300), describe(failKind(min, minRes), minRes))
			}
			switch {
			case g == nil:
			case gFail != "":
				m += " || public API: " + g.text()
			default:
				m += fmt.Sprintf(" || public API: the interrupt/resume stage did not show it (%s %s)", g.kind, g.text())
			}
			return m
		}
		return fmt.Sprintf("[%s] %s: Marshal/Unmarshal on their own are fine, but %s", r.sig, head(), g.text())
	}
	return r
}

func describe(kind string, r *vres) string {
	switch kind {
	case "panic":
		return "PANIC instead of a result or an error: " + r.text()
	case "error":
		return "a supported value of registered types was refused: " + r.text()
	}
	return "silently different result: " + r.text()
}

func main() {
	c := harness.Init("C12")
	debug.SetGCPercent(800) // the live heap is a few MB; the default GC pace costs a quarter of the run
	c.Res.Rule = "a case = (type shape, value of the shape's boundary domain); distinct by construction (canonical shape string, value index); non-trivial = every case whose shape is not a bare basic kind"
	c.Res.Assumptions = []string{
		"universe: 14 basic kinds, 4 named basic types, 11 fixed registered structs (basic, pointer, slice, map, any, nested, unexported, pointer-to-container, recursive fields) + Box{V any}; unnamed []string and map[string]int registered explicitly; arrays, named containers, pointer keys, *any, channels/funcs are outside the statement and not generated",
		"unexported struct fields are outside the statement's universe ('structs with exported fields'): they are present and set in one struct and ignored by the comparison",
		"must-succeed core = every type the encoder looks up (base of a pointer chain, key/element type of a container, pointers stripped) is registered and the value holds no NaN/Inf; outside the core an error counts as the accepted loud failure, a wrong value or a panic is a violation everywhere",
		"value domains are built compositionally (all boundary values at leaves; nil / empty / every singleton / cyclic pairs for containers; nil at every pointer level), not as full cartesian products",
		"failures are attributed to the minimal failing sub-value (a sub-value that fails when written on its own); the signature is the class of that sub-value's shape plus the kind of difference",
	}
	c.Res.Explanation = "Alphabet: grammar S ::= leaf | *S (<=2 in a row) | []E | map[K]E | Box{V:any{S}}, E ::= S | any{S}, K in {string,int,bool,NStr,SKey,SKeyAny,any}; 29 leaves. Bound: depth <=3 (quick), plus depth 4 over 15 representative leaves and sparse pairs (thorough; full cyclic pairs at depth <=3 there); every value of each shape's domain. Each case: serialization.Marshal then Unmarshal on the real code; shapes of depth <=2 also through a real interrupt/resume of a compiled graph (value in a channel, a pending input and the state) with an in-memory CheckPointStore. Oracle: error = fine; otherwise identical dynamic type and deep equality with nil ~ empty containers; never a panic; no error inside the must-succeed core."

	if errs := registerAll(); len(errs) > 0 {
		for _, e := range errs {
			c.Infra(e)
		}
		c.Finish()
	}
	var err error
	rig, err = newGraphRig()
	if err != nil {
		c.Infra("building the interrupt/resume graph failed: " + err.Error())
		c.Finish()
	}

	if v := c.LoadReplay(); v != nil {
		var rec caseRec
		b, _ := json.Marshal(v.Case)
		if err := json.Unmarshal(b, &rec); err != nil || !rec.Shape.valid() {
			fmt.Println("bad replay case")
			harnessExit2()
		}
		setPairRule(c.Quick(), rec.Shape.Depth())
		d := dom(rec.Shape, false)
		if rec.Val < 0 || rec.Val >= len(d) {
			fmt.Println("bad replay case: value index out of range")
			harnessExit2()
		}
		val := d[rec.Val]
		var res *caseRes
		gerr := c.Guard(v.Scenario, rec, 120*time.Second, func() error {
			res = evalCase(val, rec.Graph)
			return nil
		})
		if gerr != nil {
			c.ReplayExit(v.Scenario, gerr)
		}
		if res.infra != "" {
			fmt.Println(res.infra)
			harnessExit2()
		}
		if res.sig != "" {
			c.ReplayExit(v.Scenario, errors.New(res.msg()))
		}
		c.ReplayExit(v.Scenario, nil)
	}

	maxDepth, graphDepth := 3, 2
	var thorLeaves []*leafDef
	for _, l := range leaves {
		if l.inThor {
			thorLeaves = append(thorLeaves, l)
		}
	}
	type level struct {
		depth int
		lv    []*leafDef
	}
	var levels []level
	for d := 0; d <= maxDepth; d++ {
		levels = append(levels, level{d, leaves})
	}
	if !c.Quick() {
		levels = append(levels, level{4, thorLeaves})
	}

	reported := map[string]bool{}
	shapeIdx := 0
	stop := false
	bindBad := int64(0)
	for _, lvl := range levels {
		if stop {
			break
		}
		setPairRule(c.Quick(), lvl.depth)
		genShapes(lvl.depth, lvl.lv, func(s *Shape) {
			if stop {
				return
			}
			shapeIdx++
			name := s.String()
			if !c.Mine(name) {
				return
			}
			if c.TimeUp() {
				stop = true
				return
			}
			c.StateStr(name)
			withGraph := lvl.depth <= graphDepth
			bareBasic := s.K == "leaf" && leafByName[s.Leaf].kind == "basic"
			for i, val := range dom(s, false) {
				rec := caseRec{Shape: s, Val: i, Graph: withGraph, Type: s.Type().String()}
				var res *caseRes
				if withGraph {
					scen := fmt.Sprintf("%07d.%04d %s", shapeIdx, i, name)
					// No c.Journal here: every panic the code under test can raise in this stage (checkPointer.set/get
					// run inside runner.run) is raised on the calling goroutine and caught by Guard / roundTrip; the node
					// bodies are identity functions. (A journal write per case costs ~1.3 ms on this file system.)
					if gerr := c.Guard(scen, rec, 120*time.Second, func() error { res = evalCase(val, true); return nil }); gerr != nil {
						m := gerr.Error()
						res = &caseRes{sig: "harness-panic", msg: func() string { return m }, outcome: "harness-panic", bindOK: true}
					}
				} else {
					res = evalCase(val, false)
				}
				c.Res.Evaluations++
				c.Res.Transitions += int64(res.steps)
				if !bareBasic {
					c.Res.Nontrivial++
				}
				c.Outcome(res.outcome)
				if res.infra != "" {
					c.Infra(res.infra)
					stop = true
					return
				}
				if withGraph {
					if res.bindOK {
						c.Count("checkpoint_path_agrees_with_entry_points", 1)
					} else {
						bindBad++
						c.Count("checkpoint_path_disagrees_with_entry_points", 1)
					}
				}
				if res.sig == "" {
					c.Res.Validated++
					if i == len(dom(s, false))-1 && lvl.depth >= 1 {
						rec.Value = shortStr(render(val.RV), 200)
						c.Sample(rec)
					}
					continue
				}
				c.Count("failing_cases:"+res.sig, 1)
				if reported[res.sig] {
					continue
				}
				reported[res.sig] = true
				rec.Value = shortStr(render(val.RV), 400)
				v := harness.Violation{
					Property:  "C12",
					Scenario:  fmt.Sprintf("%07d.%04d %s = %s", shapeIdx, i, name, shortStr(render(val.RV), 120)),
					Signature: res.sig,
					Case:      rec,
					Msg:       res.msg(),
				}
				c.Violate(v) // one per signature and worker (the harness keeps every first violation of a signature)
			}
		})
	}
	c.Res.Transitions += extraSteps
	c.Count("round_trip_steps_spent_on_attribution", extraSteps)
	if bindBad > 0 {
		c.Res.Notes = append(c.Res.Notes, "some interrupt/resume observations differ in kind from the white-box verdict (see counters)")
	}
	c.Finish()
}

func harnessExit2() {
	os.Exit(2) // infrastructure failure in replay mode
}
