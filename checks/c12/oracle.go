package main

import (
	"fmt"
	"reflect"
	"regexp"
	"sort"
	"strconv"
	"strings"

	"github.com/cloudwego/eino/verifx"
)

// vres is the verdict of one round trip.
//
//	ok     identical dynamic type, deeply equal (nil ≈ empty containers)
//	loud   Marshal or Unmarshal returned an error
//	type | nil | len | key | value   the first difference found (a silent wrong result)
//	panic  Marshal or Unmarshal panicked
type vres struct {
	kind  string
	side  string // first step of the path to the difference: "", "key", "value", "field:<name>", "elem"
	where string // rendered path
	msg   string
	steps int // marshal / unmarshal calls made

	in     reflect.Value // silent differences: what was written / what came back (rendered on demand)
	out    any
	hasOut bool
}

// text is the full deterministic description of the verdict.
func (r *vres) text() string {
	if !r.hasOut {
		return r.msg
	}
	return fmt.Sprintf("%s; wrote %s = %s, got back %s = %s", r.msg, r.in.Type(), shortStr(render(r.in), 300), reflect.TypeOf(r.out), shortStr(render(reflect.ValueOf(r.out)), 300))
}

var addrRE = regexp.MustCompile(`0x[0-9a-fA-F]+`)

func scrub(s string) string { return addrRE.ReplaceAllString(s, "0x?") }

// roundTrip pushes one value through the real encoder and decoder.
func roundTrip(in reflect.Value) (res *vres) {
	res = &vres{}
	defer func() {
		if r := recover(); r != nil {
			res.kind, res.msg = "panic", scrub(fmt.Sprint(r))
		}
	}()
	v := in.Interface()
	res.steps = 1
	data, err := verifx.C12Marshal(v)
	if err != nil {
		res.kind, res.msg = "loud", "Marshal error: "+scrub(err.Error())
		return res
	}
	res.steps = 2
	res.msg = "Unmarshal panicked after a successful Marshal"
	out, err := verifx.C12Unmarshal(data)
	if err != nil {
		res.kind, res.msg = "loud", "Unmarshal error: "+scrub(err.Error())
		return res
	}
	return compareTop(in, out)
}

// compareTop compares the value that was written with what came back.
func compareTop(in reflect.Value, out any) *vres {
	if out == nil {
		return &vres{kind: "type", msg: fmt.Sprintf("wrote %s = %s, got back an untyped nil", in.Type(), render(in)), steps: 2}
	}
	d := compare(reflect.ValueOf(in.Interface()), reflect.ValueOf(out), "")
	if d == nil {
		return &vres{kind: "ok", steps: 2}
	}
	d.steps = 2
	d.in, d.out, d.hasOut = in, out, true
	return d
}

func sideOf(path, step string) string {
	if path == "" {
		return step
	}
	return ""
}

// compare: identical dynamic types everywhere, deep equality with nil ≈ empty for slices and maps; unexported
// struct fields are not compared. Deterministic (map keys visited in rendered order).
func compare(a, b reflect.Value, path string) *vres {
	at := func() string {
		if path == "" {
			return "at the top level"
		}
		return "at " + path
	}
	if a.Type() != b.Type() {
		return &vres{kind: "type", where: path, msg: fmt.Sprintf("type %s became %s %s", a.Type(), b.Type(), at())}
	}
	sub := func(d *vres, step string) *vres {
		if d != nil && path == "" && d.side == "" {
			d.side = step
		}
		return d
	}
	switch a.Kind() {
	case reflect.Interface:
		if a.IsNil() != b.IsNil() {
			return &vres{kind: "nil", where: path, msg: fmt.Sprintf("interface nil-ness changed (%v -> %v) %s", a.IsNil(), b.IsNil(), at())}
		}
		if a.IsNil() {
			return nil
		}
		return compare(a.Elem(), b.Elem(), path)
	case reflect.Ptr:
		if a.IsNil() != b.IsNil() {
			return &vres{kind: "nil", where: path, msg: fmt.Sprintf("pointer nil-ness changed (nil %v -> nil %v) %s", a.IsNil(), b.IsNil(), at())}
		}
		if a.IsNil() {
			return nil
		}
		return sub(compare(a.Elem(), b.Elem(), path+".*"), "pointee")
	case reflect.Slice:
		if a.Len() != b.Len() {
			return &vres{kind: "len", where: path, msg: fmt.Sprintf("slice length %d became %d %s", a.Len(), b.Len(), at())}
		}
		for i := 0; i < a.Len(); i++ {
			if d := compare(a.Index(i), b.Index(i), fmt.Sprintf("%s[%d]", path, i)); d != nil {
				return sub(d, "elem")
			}
		}
		return nil
	case reflect.Map:
		if a.Len() != b.Len() {
			return &vres{kind: "len", where: path, msg: fmt.Sprintf("map length %d became %d %s", a.Len(), b.Len(), at())}
		}
		keys := a.MapKeys()
		if len(keys) > 1 {
			sort.Slice(keys, func(i, j int) bool { return render(keys[i]) < render(keys[j]) })
		}
		for _, k := range keys {
			bv := b.MapIndex(k)
			if !bv.IsValid() {
				return &vres{kind: "key", side: sideOf(path, "key"), where: path, msg: fmt.Sprintf("map key %s is missing from the result %s", renderTyped(k), at())}
			}
			if d := compare(a.MapIndex(k), bv, fmt.Sprintf("%s[%s]", path, render(k))); d != nil {
				return sub(d, "value")
			}
		}
		return nil
	case reflect.Struct:
		for i := 0; i < a.NumField(); i++ {
			f := a.Type().Field(i)
			if f.PkgPath != "" {
				continue
			}
			if d := compare(a.Field(i), b.Field(i), path+"."+f.Name); d != nil {
				return sub(d, "field:"+f.Name)
			}
		}
		return nil
	case reflect.Float32, reflect.Float64:
		x, y := a.Float(), b.Float()
		if x == y || (x != x && y != y) {
			return nil
		}
	case reflect.Bool:
		if a.Bool() == b.Bool() {
			return nil
		}
	case reflect.Int, reflect.Int8, reflect.Int16, reflect.Int32, reflect.Int64:
		if a.Int() == b.Int() {
			return nil
		}
	case reflect.Uint, reflect.Uint8, reflect.Uint16, reflect.Uint32, reflect.Uint64:
		if a.Uint() == b.Uint() {
			return nil
		}
	case reflect.String:
		if a.String() == b.String() {
			return nil
		}
	default:
		return &vres{kind: "value", where: path, msg: fmt.Sprintf("unsupported kind %s %s", a.Kind(), at())}
	}
	return &vres{kind: "value", where: path, msg: fmt.Sprintf("value %s became %s %s", render(a), render(b), at())}
}

// ---------------------------------------------------------------------------------------------------
// deterministic rendering

func renderTyped(v reflect.Value) string {
	if v.Kind() == reflect.Interface && !v.IsNil() {
		v = v.Elem()
	}
	return v.Type().String() + "(" + render(v) + ")"
}

func render(v reflect.Value) string {
	var sb strings.Builder
	renderTo(&sb, v, 0)
	return sb.String()
}

func renderTo(sb *strings.Builder, v reflect.Value, depth int) {
	if !v.IsValid() {
		sb.WriteString("<invalid>")
		return
	}
	if depth > 12 {
		sb.WriteString("…")
		return
	}
	switch v.Kind() {
	case reflect.Bool:
		sb.WriteString(strconv.FormatBool(v.Bool()))
	case reflect.Int, reflect.Int8, reflect.Int16, reflect.Int32, reflect.Int64:
		sb.WriteString(strconv.FormatInt(v.Int(), 10))
	case reflect.Uint, reflect.Uint8, reflect.Uint16, reflect.Uint32, reflect.Uint64, reflect.Uintptr:
		sb.WriteString(strconv.FormatUint(v.Uint(), 10))
	case reflect.Float32:
		sb.WriteString(strconv.FormatFloat(v.Float(), 'g', -1, 32))
	case reflect.Float64:
		sb.WriteString(strconv.FormatFloat(v.Float(), 'g', -1, 64))
	case reflect.String:
		sb.WriteString(strconv.QuoteToASCII(v.String()))
	case reflect.Interface:
		if v.IsNil() {
			sb.WriteString("nil")
			return
		}
		sb.WriteString(v.Elem().Type().String())
		sb.WriteString("(")
		renderTo(sb, v.Elem(), depth+1)
		sb.WriteString(")")
	case reflect.Ptr:
		if v.IsNil() {
			sb.WriteString("nil")
			return
		}
		sb.WriteString("&")
		renderTo(sb, v.Elem(), depth+1)
	case reflect.Slice:
		if v.IsNil() {
			sb.WriteString("nil")
			return
		}
		sb.WriteString("[")
		for i := 0; i < v.Len(); i++ {
			if i > 0 {
				sb.WriteString(", ")
			}
			renderTo(sb, v.Index(i), depth+1)
		}
		sb.WriteString("]")
	case reflect.Map:
		if v.IsNil() {
			sb.WriteString("nil")
			return
		}
		type kv struct{ k, v string }
		var items []kv
		it := v.MapRange()
		for it.Next() {
			var vb strings.Builder
			renderTo(&vb, it.Value(), depth+1)
			items = append(items, kv{render(it.Key()), vb.String()})
		}
		sort.Slice(items, func(i, j int) bool { return items[i].k < items[j].k })
		sb.WriteString("{")
		for i, it := range items {
			if i > 0 {
				sb.WriteString(", ")
			}
			sb.WriteString(it.k + ": " + it.v)
		}
		sb.WriteString("}")
	case reflect.Struct:
		sb.WriteString(v.Type().Name())
		sb.WriteString("{")
		n := 0
		for i := 0; i < v.NumField(); i++ {
			f := v.Field(i)
			if f.IsZero() {
				continue
			}
			if n > 0 {
				sb.WriteString(", ")
			}
			n++
			sb.WriteString(v.Type().Field(i).Name + ": ")
			renderTo(sb, f, depth+1)
		}
		sb.WriteString("}")
	default:
		sb.WriteString("<" + v.Kind().String() + ">")
	}
}

// ---------------------------------------------------------------------------------------------------
// verdicts, attribution, signatures

// wbOf runs (once) the white-box round trip of a value on its own.
func wbOf(v *Val) *vres {
	if v.wb == nil {
		v.wb = roundTrip(v.RV)
		extraSteps += int64(v.wb.steps)
	}
	return v.wb
}

var extraSteps int64 // round-trip steps spent on attribution (sub-values tried alone)

// failKind: "" when the verdict satisfies the property for this value, otherwise the kind of failure
// (loud on a must-succeed value = "error").
func failKind(v *Val, r *vres) string {
	switch r.kind {
	case "ok":
		return ""
	case "loud":
		if v.mustSucceed() {
			return "error"
		}
		return ""
	}
	return r.kind
}

// attribute returns the signature of a failing value and the minimal failing sub-value it is attributed to.
// A failure is handed down to a sub-value only when that sub-value, written on its own, fails in a way that
// explains it:
//
//	panic / refused   a sub-value that panics / is refused on its own; a panic is also explained by a sub-value
//	                  whose own type changes silently, if the panic is the decoder refusing to store a wrongly
//	                  typed result in a typed slot (reflect assignability) — marked "+nested-panic"
//	silent, below the top level   the first sub-value that fails silently on its own (same kind preferred)
//	silent, at the top level      only a smaller value of the same shape (a singleton of a two-element container)
//	                              or, for a pointer, its pointee failing the same way at its own top level
//
// otherwise the value's own shape is minimal and is classified.
func attribute(v *Val, r *vres) (sig string, min *Val, minRes *vres) {
	kind := failKind(v, r)
	self := func() (string, *Val, *vres) { return classify(v, r) + "/" + kind, v, r }
	var first, same, typedRoot, sameShape *Val
	for _, k := range v.Kids {
		kr := wbOf(k)
		kk := failKind(k, kr)
		if kk == "" {
			continue
		}
		silent := kk != "panic" && kk != "error"
		if first == nil && silent {
			first = k
		}
		if kk == kind && same == nil {
			same = k
		}
		if kk == "type" && kr.where == "" && typedRoot == nil {
			typedRoot = k
		}
		if kk == kind && kr.where == "" && (k.S == v.S || v.S.K == "ptr") && sameShape == nil {
			sameShape = k
		}
	}
	switch {
	case kind == "panic" || kind == "error":
		if same != nil {
			return attribute(same, wbOf(same))
		}
		if kind == "panic" && typedRoot != nil && strings.HasPrefix(r.msg, "reflect") {
			s, _, _ := attribute(typedRoot, wbOf(typedRoot))
			if !strings.Contains(s, "+nested-panic") {
				s += "+nested-panic"
			}
			return s, v, r
		}
		return self()
	case r.where == "":
		if sameShape != nil {
			return attribute(sameShape, wbOf(sameShape))
		}
		return self()
	}
	if same != nil && same != sameShape {
		return attribute(same, wbOf(same))
	}
	if first != nil {
		return attribute(first, wbOf(first))
	}
	return self()
}

// classify describes the class of a minimal failing value (never its concrete contents).
func classify(v *Val, r *vres) string {
	s := v.S
	switch s.K {
	case "leaf":
		l := leafByName[s.Leaf]
		switch l.kind {
		case "basic":
			return l.name + "-" + v.Class
		case "named":
			return "named-" + l.under + "-" + v.Class
		}
		d := "struct-" + l.name
		if strings.HasPrefix(r.side, "field:") {
			d += "." + strings.TrimPrefix(r.side, "field:")
		}
		return d
	case "box":
		return "struct-Box-any-" + ctorOf(s.Elem)
	case "ptr":
		n := ptrChain(s)
		// nil level
		rv := v.RV
		lvl := -1
		for i := 0; i < n; i++ {
			if rv.IsNil() {
				lvl = i
				break
			}
			rv = rv.Elem()
		}
		pre := strings.Repeat("ptr", n)
		base := stripPtr(s)
		// a nil chain that is refused or panics: the base type matters (the decoder is built for it)
		lbl := ""
		if (r.kind == "loud" || r.kind == "panic") && base.K == "leaf" && ctorOf(base) == "struct" {
			lbl = "-" + base.Leaf
		}
		switch {
		case lvl < 0:
			return pre + "-to-" + ctorOf(base)
		case n == 1:
			if lbl == "" {
				lbl = "-" + ctorOf(base)
			}
			return "ptr-nil" + lbl
		case n == 2 && lvl == 0:
			return "ptrptr-outer-nil" + lbl
		case n == 2 && lvl == 1:
			return "ptrptr-inner-nil" + lbl
		}
		return fmt.Sprintf("%s-nil-at-%d%s", pre, lvl, lbl)
	case "slice":
		return "slice-of-" + elemDesc(s)
	case "map":
		if r.side == "value" {
			return "map-value-" + elemDesc(s)
		}
		d := "map-" + keyDesc(s.Key) + "-key"
		if s.Key == "any" {
			var cats []string
			for _, k := range v.Kids {
				if k.S.K == "leaf" && isKeyOf(v, k) {
					cats = append(cats, keyCat(k))
				}
			}
			if len(cats) > 0 {
				d += "-" + strings.Join(cats, "+")
			}
		}
		return d
	}
	return "unknown"
}

// isKeyOf: k is a key (not an element, not a sub-map) of map value v.
func isKeyOf(v, k *Val) bool {
	if k.S.K != "leaf" || !k.RV.Type().Comparable() {
		return false
	}
	for _, kk := range keyDom(v.S.Key) {
		if kk == k {
			return true
		}
	}
	return false
}

func keyDesc(k string) string {
	switch k {
	case "string", "int", "bool", "any":
		return k
	case "NStr":
		return "named"
	}
	return k // struct key types by name
}

func elemDesc(s *Shape) string {
	if s.Any {
		return "any-" + ctorOf(s.Elem)
	}
	return ctorOf(s.Elem)
}
