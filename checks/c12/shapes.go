package main

import (
	"reflect"
)

// Shape is a type shape of the grammar: a static Go type plus, for every interface-typed position, the shape of
// the dynamic content put there.
//
//	S ::= leaf | *S (at most two in a row) | []E | map[K]E | Box{V: any{S}}      E ::= S | any{S}
//	K ::= string | int | bool | NStr | SKey | SKeyAny | any (dynamic keys of several kinds)
type Shape struct {
	K    string `json:"k"`              // leaf | ptr | slice | map | box
	Leaf string `json:"leaf,omitempty"` // leaf name
	Key  string `json:"key,omitempty"`  // map key type
	Any  bool   `json:"any,omitempty"`  // slice/map: the element's static type is any, Elem is its dynamic content
	Elem *Shape `json:"elem,omitempty"`

	str   string
	rt    reflect.Type
	coreK int8 // 0 unknown, 1 yes, 2 no
}

func (s *Shape) String() string {
	if s.str != "" {
		return s.str
	}
	es := func() string {
		if s.Any {
			return "any{" + s.Elem.String() + "}"
		}
		return s.Elem.String()
	}
	switch s.K {
	case "leaf":
		s.str = s.Leaf
	case "ptr":
		s.str = "*" + s.Elem.String()
	case "slice":
		s.str = "[]" + es()
	case "map":
		s.str = "map[" + s.Key + "]" + es()
	case "box":
		s.str = "Box{any{" + s.Elem.String() + "}}"
	}
	return s.str
}

func (s *Shape) Depth() int {
	if s.K == "leaf" {
		return 0
	}
	return 1 + s.Elem.Depth()
}

// valid checks a shape decoded from a replay file.
func (s *Shape) valid() bool {
	if s == nil {
		return false
	}
	switch s.K {
	case "leaf":
		return leafByName[s.Leaf] != nil
	case "ptr", "slice", "box":
		return s.Elem.valid()
	case "map":
		if s.Key != "any" && leafByName[s.Key] == nil {
			return false
		}
		return s.Elem.valid()
	}
	return false
}

func keyType(k string) reflect.Type {
	if k == "any" {
		return anyType
	}
	return leafByName[k].t
}

// Type is the static Go type of the shape.
func (s *Shape) Type() reflect.Type {
	if s.rt != nil {
		return s.rt
	}
	et := func() reflect.Type {
		if s.Any {
			return anyType
		}
		return s.Elem.Type()
	}
	switch s.K {
	case "leaf":
		s.rt = leafByName[s.Leaf].t
	case "ptr":
		s.rt = reflect.PtrTo(s.Elem.Type())
	case "slice":
		s.rt = reflect.SliceOf(et())
	case "map":
		s.rt = reflect.MapOf(keyType(s.Key), et())
	case "box":
		s.rt = boxType
	}
	return s.rt
}

func stripPtr(s *Shape) *Shape {
	for s.K == "ptr" {
		s = s.Elem
	}
	return s
}

func ptrChain(s *Shape) int {
	n := 0
	for s.K == "ptr" {
		n++
		s = s.Elem
	}
	return n
}

// registered: the type, pointers stripped, is in the implementation's registry.
func registered(s *Shape) bool {
	b := stripPtr(s)
	return b.K == "leaf" || b.K == "box" || registeredComposite(b)
}

// Core: the "must succeed" part of the universe — every type the encoder has to look up (the base of a pointer
// chain, the key and element type of a container, pointers stripped) is registered. Outside the core an error
// is an accepted loud failure; a wrong value is a violation everywhere.
func (s *Shape) Core() bool {
	if s.coreK != 0 {
		return s.coreK == 1
	}
	var c bool
	switch s.K {
	case "leaf":
		c = true
	case "box":
		c = s.Elem.Core()
	case "ptr":
		b := stripPtr(s)
		c = registered(b) && b.Core()
	case "slice", "map":
		if s.Any {
			c = s.Elem.Core()
		} else {
			c = registered(s.Elem) && s.Elem.Core()
		}
	}
	s.coreK = 2
	if c {
		s.coreK = 1
	}
	return c
}

// ctorOf is the constructor class used in signatures.
func ctorOf(s *Shape) string {
	switch s.K {
	case "leaf":
		return leafByName[s.Leaf].kind // basic | named | struct
	case "box":
		return "struct"
	}
	return s.K
}

// ---------------------------------------------------------------------------------------------------
// enumeration

func constructors(e *Shape, f func(*Shape)) {
	if ptrChain(e) < 2 {
		f(P(e))
	}
	f(Sl(e))
	f(SlA(e))
	for _, k := range mapKeys {
		f(Mp(k, e))
		f(MpA(k, e))
	}
	f(Bx(e))
}

// genShapes calls f for every shape of exactly the given depth over the given leaves, in a fixed order.
func genShapes(depth int, lv []*leafDef, f func(*Shape)) {
	if depth == 0 {
		for _, l := range lv {
			f(L(l.name))
		}
		return
	}
	genShapes(depth-1, lv, func(e *Shape) { constructors(e, f) })
}

// ---------------------------------------------------------------------------------------------------
// values

// Val is one value of a shape's domain, with the sub-values that can be tried alone (attribution).
type Val struct {
	S       *Shape
	RV      reflect.Value
	Kids    []*Val
	Special bool   // contains NaN/Inf
	Class   string // leaf: value class
	wb      *vres  // cached white-box verdict
}

func (v *Val) mustSucceed() bool { return v.S.Core() && !v.Special }

type domKey struct {
	s   *Shape
	red bool
}

var domCache = map[domKey][]*Val{}

// dom is the value domain of a shape, simplest first. red: the reduced leaf domain used inside struct fields.
//
//	leaf      every boundary value of the kind (reduced: the first and the ones marked hard)
//	struct    zero; for every field every value of the field's reduced domain with the other fields zero; all set; extras
//	*S        nil; pointer to every value of S
//	[]E       nil; empty; [v] for every v of E; pairs [v_i, v_i+1] cyclically   (E any: values of the content and nil)
//	map[K]E   nil; empty; {k_i: v_i} for i < max(|K|,|E|) (indices cyclic); pairs {k_i: v_i, k_i+1: v_i+1}
//	          pairs: every i when the element is a leaf or in the thorough tier, else i = 0 and i = last
//	Box       Box{nil}; Box{v} for every v
func dom(s *Shape, red bool) []*Val {
	k := domKey{s, red}
	if d, ok := domCache[k]; ok {
		return d
	}
	if len(domCache) > 512 {
		domCache = map[domKey][]*Val{}
	}
	d := buildDom(s, red)
	domCache[k] = d
	return d
}

func elemDom(s *Shape, red bool) []*Val {
	d := dom(s.Elem, red)
	if s.Any {
		return append([]*Val{nil}, d...) // nil = nil interface
	}
	return d
}

func special(vs ...*Val) bool {
	for _, v := range vs {
		if v != nil && v.Special {
			return true
		}
	}
	return false
}

func nonNil(vs ...*Val) []*Val {
	var out []*Val
	for _, v := range vs {
		if v != nil {
			out = append(out, v)
		}
	}
	return out
}

func buildDom(s *Shape, red bool) []*Val {
	t := s.Type()
	var out []*Val
	switch s.K {
	case "leaf":
		l := leafByName[s.Leaf]
		if l.kind == "struct" {
			return structDom(s, l, red)
		}
		for i, b := range l.vals {
			if red && i > 0 && !b.hard {
				continue
			}
			out = append(out, &Val{S: s, RV: reflect.ValueOf(b.v), Special: b.special, Class: b.class})
		}
	case "ptr":
		out = append(out, &Val{S: s, RV: reflect.Zero(t)})
		for _, e := range dom(s.Elem, red) {
			p := reflect.New(t.Elem())
			p.Elem().Set(e.RV)
			out = append(out, &Val{S: s, RV: p, Kids: []*Val{e}, Special: e.Special})
		}
	case "box":
		out = append(out, &Val{S: s, RV: reflect.Zero(t)})
		for _, e := range dom(s.Elem, red) {
			b := reflect.New(t).Elem()
			b.Field(0).Set(e.RV)
			out = append(out, &Val{S: s, RV: b, Kids: []*Val{e}, Special: e.Special})
		}
	case "slice":
		ed := elemDom(s, red)
		mk := func(es ...*Val) reflect.Value {
			sl := reflect.MakeSlice(t, len(es), len(es))
			for i, e := range es {
				if e != nil {
					sl.Index(i).Set(e.RV)
				}
			}
			return sl
		}
		out = append(out, &Val{S: s, RV: reflect.Zero(t)}, &Val{S: s, RV: mk()})
		singles := make([]*Val, len(ed))
		for i, e := range ed {
			singles[i] = &Val{S: s, RV: mk(e), Kids: nonNil(e), Special: special(e)}
			out = append(out, singles[i])
		}
		if len(ed) > 1 {
			for _, i := range pairIdx(s, len(ed)) {
				j := (i + 1) % len(ed)
				out = append(out, &Val{S: s, RV: mk(ed[i], ed[j]), Kids: nonNil(ed[i], ed[j], singles[i], singles[j]), Special: special(ed[i], ed[j])})
			}
		}
	case "map":
		ed := elemDom(s, red)
		kd := keyDom(s.Key)
		mk := func(ks, es []*Val) reflect.Value {
			m := reflect.MakeMapWithSize(t, len(ks))
			for i := range ks {
				ev := reflect.Zero(t.Elem())
				if es[i] != nil {
					ev = es[i].RV
				}
				m.SetMapIndex(ks[i].RV, ev)
			}
			return m
		}
		out = append(out, &Val{S: s, RV: reflect.Zero(t)}, &Val{S: s, RV: mk(nil, nil)})
		n := len(kd)
		if len(ed) > n {
			n = len(ed)
		}
		singles := make([]*Val, n)
		for i := 0; i < n; i++ {
			k, e := kd[i%len(kd)], ed[i%len(ed)]
			singles[i] = &Val{S: s, RV: mk([]*Val{k}, []*Val{e}), Kids: nonNil(k, e), Special: special(e)}
			out = append(out, singles[i])
		}
		for _, i := range pairIdx(s, n) {
			j := (i + 1) % n
			k1, e1, k2, e2 := kd[i%len(kd)], ed[i%len(ed)], kd[j%len(kd)], ed[j%len(ed)]
			if k1 == k2 {
				continue
			}
			out = append(out, &Val{S: s, RV: mk([]*Val{k1, k2}, []*Val{e1, e2}), Kids: nonNil(k1, e1, k2, e2, singles[i], singles[j]), Special: special(e1, e2)})
		}
	}
	return out
}

// allPairs: thorough tier, top-level shapes of depth <= 3. Otherwise containers whose element is not a leaf get
// only the two pairs (v_0,v_1) and (v_last,v_0): their elements were already paired one level down.
var allPairs bool

func setPairRule(quick bool, topDepth int) { allPairs = !quick && topDepth <= 3 }

func pairIdx(s *Shape, n int) []int {
	if allPairs || s.Elem.K == "leaf" || n <= 2 {
		out := make([]int, n)
		for i := range out {
			out[i] = i
		}
		return out
	}
	return []int{0, n - 1}
}

var keyDomCache = map[string][]*Val{}

// keyDom: the key values of a map key type (for any: dynamic keys of several kinds).
func keyDom(key string) []*Val {
	if d, ok := keyDomCache[key]; ok {
		return d
	}
	pick := func(leaf string, classes ...string) []*Val {
		var out []*Val
		for _, v := range dom(L(leaf), false) {
			for _, c := range classes {
				if v.Class == c {
					out = append(out, v)
				}
			}
		}
		return out
	}
	var d []*Val
	switch key {
	case "string":
		d = pick("string", "empty", "ascii", "nonascii", "escape", "mixed")
	case "int":
		d = pick("int", "zero", "one", "neg", "big")
	case "bool":
		d = pick("bool", "zero", "one")
	case "NStr":
		d = pick("NStr", "empty", "ascii", "mixed")
	case "SKey":
		d = []*Val{handVal(L("SKey"), SKey{}), handVal(L("SKey"), SKey{A: "a", B: 1}), handVal(L("SKey"), SKey{A: "é\"\u2028", B: 1<<53 + 1})}
	case "SKeyAny":
		d = []*Val{handVal(L("SKeyAny"), SKeyAny{}), handVal(L("SKeyAny"), SKeyAny{X: "s"}), handVal(L("SKeyAny"), SKeyAny{X: 1}),
			handVal(L("SKeyAny"), SKeyAny{X: NStr("n")}), handVal(L("SKeyAny"), SKeyAny{X: 1.5})}
	case "any":
		d = append(d, pick("string", "ascii")...)
		d = append(d, pick("int", "one")...)
		d = append(d, pick("bool", "one")...)
		d = append(d, pick("NStr", "ascii")...)
		d = append(d, handVal(L("SKey"), SKey{A: "a", B: 1}))
		d = append(d, pick("float64", "frac")...)
		d = append(d, pick("int64", "big")...)
		d = append(d, pick("uint8", "one")...)
	}
	keyDomCache[key] = d
	return d
}

// keyCat is the class of a dynamic key in signatures.
func keyCat(v *Val) string {
	l := leafByName[v.S.Leaf]
	switch {
	case l.kind == "named":
		return "named"
	case l.kind == "struct":
		return "struct"
	case l.name == "string":
		return "string"
	case l.name == "bool":
		return "bool"
	}
	return "number"
}

// structDom: zero; one field set at a time (every value of the field's reduced domain); all fields set; extras.
// Reduced (the struct is itself a field): zero and all-set only.
func structDom(s *Shape, l *leafDef, red bool) []*Val {
	t := l.t
	fdoms := make([][]*Val, len(l.sdef.fields))
	for i, f := range l.sdef.fields {
		if f.noSet {
			continue
		}
		if f.isAny {
			fdoms[i] = append(fdoms[i], nil)
		}
		for _, fs := range f.shapes {
			fdoms[i] = append(fdoms[i], dom(fs, true)...)
		}
	}
	var zeroKids []*Val // the zero values of the fields (typed nil pointers, nil containers, ...)
	for i := range l.sdef.fields {
		if len(fdoms[i]) > 0 && fdoms[i][0] != nil {
			zeroKids = append(zeroKids, fdoms[i][0])
		}
	}
	out := []*Val{{S: s, RV: reflect.Zero(t), Kids: zeroKids}}
	set := func(sv reflect.Value, i int, x *Val) {
		if x != nil {
			sv.FieldByName(l.sdef.fields[i].name).Set(x.RV)
		}
	}
	if !red {
		for i := range l.sdef.fields {
			for j, x := range fdoms[i] {
				if j == 0 {
					continue // the first value of every domain is the zero value / nil
				}
				sv := reflect.New(t).Elem()
				set(sv, i, x)
				kids := nonNil(x)
				for k := range l.sdef.fields {
					if k != i && len(fdoms[k]) > 0 && fdoms[k][0] != nil {
						kids = append(kids, fdoms[k][0])
					}
				}
				out = append(out, &Val{S: s, RV: sv, Kids: kids, Special: special(x)})
			}
		}
	}
	if len(l.sdef.fields) > 0 {
		sv := reflect.New(t).Elem()
		var kids []*Val
		for i := range l.sdef.fields {
			if len(fdoms[i]) == 0 {
				continue
			}
			x := fdoms[i][len(fdoms[i])-1]
			set(sv, i, x)
			kids = append(kids, nonNil(x)...)
		}
		if len(kids) > 0 {
			out = append(out, &Val{S: s, RV: sv, Kids: kids, Special: special(kids...)})
		}
	}
	if !red && l.sdef.extra != nil {
		out = append(out, l.sdef.extra()...)
	}
	return out
}

func shortStr(s string, n int) string {
	if len(s) <= n {
		return s
	}
	return s[:n] + "…"
}
