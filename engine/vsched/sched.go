// Package vsched is a cooperative scheduler shim plus a stateless exhaustive explorer.
//
// It is overlaid into the eino module as github.com/cloudwego/eino/vsched at check time (go build
// -overlay); the rewriter (engine/rewrite) turns every channel / select / go / sync / atomic construct of
// the eino sources into a call into this package, so that exactly one managed goroutine ("thread") runs at
// a time and the explorer decides which one at every scheduling point.
//
// NOTE: this file is compiled with the language version of eino's go.mod (go 1.18): per-loop loop
// variables, no min/max/clear builtins.
package vsched

import (
	"fmt"
	"runtime"
	"strings"
)

// ---------------------------------------------------------------------------------------------------
// operation kinds

const (
	opNone uint8 = iota
	opStart
	opYield
	opSpawn
	opSend
	opRecv
	opClose
	opSelect
	opLock
	opRLock
	opOnce
	opWGWait
	opCondWait
	opAtomic
	opGeneric
	opChoice
)

var opNames = [...]string{"none", "start", "yield", "spawn", "send", "recv", "close", "select", "lock", "rlock", "once", "wgwait", "condwait", "atomic", "generic", "choice"}

type selCase struct {
	send   bool
	native bool // close-only native channel (e.g. ctx.Done()); ready iff closed
	ch     *core
	val    any
	nready func() bool
}

type op struct {
	kind   uint8
	obj    int
	en     func() bool // simple kinds: enabledness predicate
	ch     *core
	val    any
	cases  []selCase
	hasDef bool
	site   string
	// completion by a rendezvous partner
	done  bool
	rcase int
	rval  any
	rok   bool
}

type thread struct {
	hist    uint64 // hash of this thread's history of performed operations (kind, object, per-object sequence number)
	id      int
	name    string
	wake    chan struct{}
	op      *op
	started bool
	done    bool
	exiting bool
}

// PointRec is one decision taken during an execution.
type PointRec struct {
	N       int   // number of alternatives
	Chosen  int   // index taken
	Kind    uint8 // 0 thread choice, 1 select-case choice, 2 harness environment choice
	RunEn   bool  // thread choice: the running thread was still enabled (alternatives cost a preemption)
	Tid     int   // thread that runs after the decision (thread choice) or that asked (others)
	OpKind  uint8
	Obj     int
}

// Exec is the record of one complete execution.
type Exec struct {
	Points       []PointRec
	Steps        int      // scheduling points passed (including forced ones)
	Deadlock     bool     // main did not finish and nothing is enabled
	Blocked      []string // threads still blocked at quiescence (leak when main finished)
	MainDone     bool
	MainPanic    string // panic escaping the harness main function
	ThreadPanic  string // panic escaping a managed goroutine (process crash in production)
	Horizon      bool   // step horizon exceeded
	Pruned       bool   // abandoned: reached a state whose futures are explored elsewhere (HB state cache)
	Diverged     string // replay divergence (nondeterminism not owned)
	Sig          uint64 // hash of the scheduling-point signature list
	Preemptions  int
	Threads      int
	StateHashes  []uint64 // when CollectStates
	Trace        []string // when Debug
}

type sched struct {
	active   bool
	aborting bool
	epoch    int
	threads  []*thread
	cur      *thread
	nextObj  int
	finished chan struct{}
	ack      chan struct{}

	prefix  []int
	objSeq  []uint32
	noteSeq map[int]uint32
	cache   map[uint64]int32 // HB state key -> fewest preemptions it was reached with
	x       *Exec
	horizon int
	debug   bool
	states  bool
	selCost bool
}

var s = &sched{finished: make(chan struct{}, 1), ack: make(chan struct{}, 1)}

// Active reports whether code runs under the controlled scheduler.
func Active() bool { return s.active && !s.aborting }

// Epoch identifies the current execution; shim objects use it to reset lazily.
func Epoch() int { return s.epoch }

// NewObjID hands out a per-execution object id (deterministic creation order).
func NewObjID() int { s.nextObj++; return s.nextObj }

func (t *thread) String() string {
	if t.name != "" {
		return fmt.Sprintf("T%d(%s)", t.id, t.name)
	}
	return fmt.Sprintf("T%d", t.id)
}

func (o *op) describe() string {
	if o == nil {
		return "running"
	}
	d := fmt.Sprintf("%s#%d", opNames[o.kind], o.obj)
	if o.kind == opSelect {
		var parts []string
		for _, c := range o.cases {
			dir := "recv"
			if c.send {
				dir = "send"
			}
			id := -1
			if c.ch != nil {
				id = c.ch.id
			}
			if c.native {
				dir, id = "native", 0
			}
			parts = append(parts, fmt.Sprintf("%s#%d", dir, id))
		}
		d = "select[" + strings.Join(parts, ",") + "]"
	}
	if o.site != "" {
		d += "@" + o.site
	}
	return d
}

// performed folds an operation into the history of thread t. Together with the per-object sequence
// number this makes the vector of thread histories a canonical name of the happens-before graph of the
// execution prefix, i.e. (for data-race-free code) of the program state.
func (sc *sched) performed(t *thread, kind uint8, obj int) {
	for obj >= len(sc.objSeq) {
		sc.objSeq = append(sc.objSeq, 0)
	}
	sc.objSeq[obj]++
	t.hist = mix(mix(mix(t.hist, uint64(kind)+1), uint64(obj)), uint64(sc.objSeq[obj]))
}

// Note orders an access to harness-level shared data in the happens-before state key (no scheduling
// point): call it before reading and after writing variables that harness threads share.
// obj names the shared datum (accesses to different data commute).
func Note(obj int) {
	if !Active() {
		return
	}
	if s.noteSeq == nil {
		s.noteSeq = map[int]uint32{}
	}
	s.noteSeq[obj]++
	s.cur.hist = mix(mix(s.cur.hist, uint64(obj)+0x7000), uint64(s.noteSeq[obj]))
}

func (sc *sched) stateKey(me *thread, runEn bool) uint64 {
	h := uint64(14695981039346656037)
	for _, t := range sc.threads {
		h = mix(h, t.hist)
		if t.done {
			h = mix(h, 0xdead)
		} else if t.op != nil {
			h = mix(h, uint64(t.op.kind)+(uint64(t.op.obj)<<8))
			if t.op.done {
				h = mix(h, 0x77)
			}
		}
	}
	if runEn {
		h = mix(h, uint64(me.id)+0x1000)
	}
	return h
}

// ---------------------------------------------------------------------------------------------------
// enabledness

func (sc *sched) findPartner(c *core, self *thread, wantSend bool) (*thread, int) {
	for _, t := range sc.threads {
		if t == self || t.done || t.op == nil || t.op.done {
			continue
		}
		o := t.op
		switch o.kind {
		case opSend:
			if wantSend && o.ch == c {
				return t, -1
			}
		case opRecv:
			if !wantSend && o.ch == c {
				return t, -1
			}
		case opSelect:
			for i := range o.cases {
				cs := &o.cases[i]
				if cs.native || cs.ch != c {
					continue
				}
				if cs.send == wantSend {
					return t, i
				}
			}
		}
	}
	return nil, 0
}

func (sc *sched) recvReady(c *core, self *thread) bool {
	if c == nil {
		return false
	}
	c.touch()
	if len(c.buf) > 0 || c.closed {
		return true
	}
	if c.cap == 0 {
		t, _ := sc.findPartner(c, self, true)
		return t != nil
	}
	return false
}

func (sc *sched) sendReady(c *core, self *thread) bool {
	if c == nil {
		return false
	}
	c.touch()
	if c.closed {
		return true // will panic, like Go
	}
	if c.cap > 0 {
		return len(c.buf) < c.cap
	}
	t, _ := sc.findPartner(c, self, false)
	return t != nil
}

func (sc *sched) caseReady(cs *selCase, self *thread) bool {
	if cs.native {
		return cs.nready()
	}
	if cs.send {
		return sc.sendReady(cs.ch, self)
	}
	return sc.recvReady(cs.ch, self)
}

func (sc *sched) enabled(t *thread) bool {
	if t.done {
		return false
	}
	o := t.op
	if o == nil {
		return true
	}
	if o.done {
		return true
	}
	switch o.kind {
	case opSend:
		return sc.sendReady(o.ch, t)
	case opRecv:
		return sc.recvReady(o.ch, t)
	case opSelect:
		if o.hasDef {
			return true
		}
		for i := range o.cases {
			if sc.caseReady(&o.cases[i], t) {
				return true
			}
		}
		return false
	default:
		if o.en != nil {
			return o.en()
		}
		return true
	}
}

// ---------------------------------------------------------------------------------------------------
// choices

func (sc *sched) choose(n int, kind uint8, runEn bool) int {
	x := sc.x
	i := len(x.Points)
	c := 0
	if i < len(sc.prefix) {
		c = sc.prefix[i]
		if c >= n {
			x.Diverged = fmt.Sprintf("replay divergence at point %d: recorded choice %d but only %d alternatives", i, c, n)
			c = 0
		}
	}
	x.Points = append(x.Points, PointRec{N: n, Chosen: c, Kind: kind, RunEn: runEn})
	return c
}

// Choose lets harness code ask the explorer for an environment answer in [0,n). All answers are explored;
// a non-default answer (≠0) costs nothing against the preemption bound.
func Choose(n int) int {
	if !Active() || n <= 1 {
		return 0
	}
	c := s.choose(n, 2, false)
	p := &s.x.Points[len(s.x.Points)-1]
	p.Tid, p.OpKind = s.cur.id, opChoice
	s.cur.hist = mix(s.cur.hist, uint64(c)+0xc000)
	return c
}

func mix(h uint64, v uint64) uint64 {
	h ^= v
	h *= 1099511628211
	return h
}

func (sc *sched) stateHash() uint64 {
	h := uint64(14695981039346656037)
	for _, t := range sc.threads {
		if t.done {
			h = mix(h, 0xdead)
			continue
		}
		if t.op == nil {
			h = mix(h, 0xaaaa)
			continue
		}
		h = mix(h, uint64(t.op.kind)+1)
		h = mix(h, uint64(t.op.obj))
		if t.op.done {
			h = mix(h, 7)
		}
		if t.op.ch != nil {
			h = mix(h, uint64(len(t.op.ch.buf)))
			if t.op.ch.closed {
				h = mix(h, 3)
			}
		}
		for i := range t.op.cases {
			cs := &t.op.cases[i]
			if cs.ch != nil {
				h = mix(h, uint64(cs.ch.id))
				h = mix(h, uint64(len(cs.ch.buf)))
				if cs.ch.closed {
					h = mix(h, 3)
				}
			}
		}
	}
	return h
}

// schedule is called by the running thread (cur) when it reaches a scheduling point with its pending op
// registered in cur.op (or cur.done set). It returns when cur has been chosen to continue; a finished
// thread never returns from its own final call (it just hands over).
func (sc *sched) schedule() {
	me := sc.cur
	x := sc.x
	x.Steps++
	if x.Steps > sc.horizon {
		x.Horizon = true
		sc.finish(me)
		return
	}
	// canonical enabled list: running thread first if still enabled, then ascending ids
	var en [16]*thread
	list := en[:0]
	runEn := !me.done && sc.enabled(me)
	if runEn {
		list = append(list, me)
	}
	for _, t := range sc.threads {
		if t != me && sc.enabled(t) {
			list = append(list, t)
		}
	}
	if len(list) == 0 {
		sc.finish(me)
		return
	}
	var next *thread
	if len(list) == 1 {
		next = list[0]
	} else {
		if sc.cache != nil && len(x.Points) >= len(sc.prefix) {
			k := sc.stateKey(me, runEn)
			if best, ok := sc.cache[k]; ok && int(best) <= x.Preemptions {
				x.Pruned = true
				sc.finish(me)
				return
			}
			sc.cache[k] = int32(x.Preemptions)
		}
		c := sc.choose(len(list), 0, runEn)
		next = list[c]
		p := &x.Points[len(x.Points)-1]
		p.Tid = next.id
		if next.op != nil {
			p.OpKind, p.Obj = next.op.kind, next.op.obj
		}
		if runEn && c != 0 {
			x.Preemptions++
		}
	}
	if next.op != nil {
		x.Sig = mix(mix(mix(x.Sig, uint64(next.id)+1), uint64(next.op.kind)), uint64(next.op.obj))
	} else {
		x.Sig = mix(x.Sig, uint64(next.id)+1)
	}
	if sc.states {
		x.StateHashes = append(x.StateHashes, sc.stateHash())
	}
	if sc.debug {
		x.Trace = append(x.Trace, fmt.Sprintf("%v %s", next, next.op.describe()))
	}
	if next == me {
		return
	}
	sc.cur = next
	next.wake <- struct{}{}
	if me.done {
		return
	}
	sc.park(me)
}

func (sc *sched) park(me *thread) {
	<-me.wake
	if sc.aborting {
		me.exiting = true
		runtime.Goexit()
	}
}

// finish ends the execution: nothing is enabled (quiescence or deadlock), horizon, or escaped panic.
func (sc *sched) finish(me *thread) {
	x := sc.x
	main := sc.threads[0]
	x.MainDone = main.done
	for _, t := range sc.threads {
		if !t.done {
			x.Blocked = append(x.Blocked, fmt.Sprintf("%v blocked at %s", t, t.op.describe()))
		}
	}
	if !main.done && !x.Horizon && !x.Pruned && x.ThreadPanic == "" {
		x.Deadlock = true
	}
	sc.finished <- struct{}{}
	if me.done {
		return
	}
	sc.park(me)
}

// point registers o as the pending operation of the running thread and yields to the scheduler. When it
// returns the thread is running and o is enabled (or completed by a partner).
func (sc *sched) point(o *op) {
	if sc.debug && o.site == "" {
		o.site = callerSite()
	}
	me := sc.cur
	me.op = o
	sc.schedule()
	me.op = nil
}

func callerSite() string {
	var pcs [12]uintptr
	n := runtime.Callers(3, pcs[:])
	fr := runtime.CallersFrames(pcs[:n])
	for {
		f, more := fr.Next()
		if !strings.Contains(f.File, "/vsched/") && !strings.Contains(f.File, "engine/vsched") {
			fn := f.Function
			if i := strings.LastIndex(fn, "/"); i >= 0 {
				fn = fn[i+1:]
			}
			return fmt.Sprintf("%s:%d", fn, f.Line)
		}
		if !more {
			return ""
		}
	}
}

// ---------------------------------------------------------------------------------------------------
// public primitives used by the shim types and by harness code

// Yield is an explicit scheduling point at which the caller stays enabled ("this body takes time").
func Yield() {
	if !Active() {
		if !s.aborting {
			runtime.Gosched()
		}
		return
	}
	s.point(&op{kind: opYield})
	s.performed(s.cur, opYield, 0)
}

// Block is the generic blocking primitive for shim types: a scheduling point whose operation is enabled
// when en() is true. kind is one of the Op* constants below; obj identifies the object for signatures.
func Block(kind uint8, obj int, en func() bool) {
	if !Active() {
		return
	}
	s.point(&op{kind: kind, obj: obj, en: en})
	s.performed(s.cur, kind, obj)
}

const (
	OpLock     = opLock
	OpRLock    = opRLock
	OpOnce     = opOnce
	OpWGWait   = opWGWait
	OpCondWait = opCondWait
	OpAtomic   = opAtomic
	OpGeneric  = opGeneric
)

// Aborting reports that the current execution is being torn down: shim operations must not block or panic.
func Aborting() bool { return s.aborting }

// Go starts f as a managed thread. Thread ids are assigned in spawn order.
func Go(f func()) { GoNamed("", f) }

func GoNamed(name string, f func()) {
	if !s.active {
		nativeGo(name, f) // `go f()` plus native tracking (native.go); used by Engine R helpers and the race pass
		return
	}
	if s.aborting {
		return // teardown: never start new work
	}
	t := &thread{id: len(s.threads), name: name, wake: make(chan struct{}, 1)}
	t.op = &op{kind: opStart}
	s.performed(s.cur, opSpawn, t.id)
	t.hist = mix(s.cur.hist, uint64(t.id)+0x5000)
	s.threads = append(s.threads, t)
	if len(s.threads) > 15 {
		panic("vsched: too many threads")
	}
	go threadMain(t, f)
	// spawn is a scheduling point: the child may run first (at the cost of a preemption)
	s.point(&op{kind: opSpawn, obj: t.id})
}

func threadMain(t *thread, f func()) {
	<-t.wake
	if s.aborting {
		t.done = true
		s.ack <- struct{}{}
		return
	}
	t.op = nil
	defer func() {
		if r := recover(); r != nil {
			msg := fmt.Sprintf("%v", r)
			if t.id == 0 {
				s.x.MainPanic = msg
			} else if s.x.ThreadPanic == "" {
				s.x.ThreadPanic = fmt.Sprintf("%v: %s", t, msg)
			}
			if s.debug {
				buf := make([]byte, 8192)
				n := runtime.Stack(buf, false)
				s.x.Trace = append(s.x.Trace, "PANIC "+msg+"\n"+string(buf[:n]))
			}
		}
		t.done = true
		t.op = nil
		if t.exiting || s.aborting {
			s.ack <- struct{}{}
			return
		}
		if t.id != 0 && s.x.ThreadPanic != "" {
			// an escaped panic in a goroutine kills the process: stop the execution here
			s.finish(t)
			return
		}
		s.schedule()
	}()
	f()
}

// Config for one execution.
type RunConfig struct {
	Cache         map[uint64]int32 // HB state cache shared across the executions of one exploration (nil: off)
	Prefix        []int
	Horizon       int
	Debug         bool
	CollectStates bool
}

// RunOnce executes main under the scheduler following cfg.Prefix, then choice 0 everywhere.
func RunOnce(cfg RunConfig, main func()) *Exec {
	if s.active {
		panic("vsched: nested RunOnce")
	}
	s.epoch++
	s.active, s.aborting = true, false
	s.threads = s.threads[:0]
	s.nextObj = 0
	s.prefix = cfg.Prefix
	s.cache = cfg.Cache
	s.objSeq = s.objSeq[:0]
	s.noteSeq = nil
	s.horizon = cfg.Horizon
	if s.horizon == 0 {
		s.horizon = 20000
	}
	s.debug, s.states = cfg.Debug, cfg.CollectStates
	x := &Exec{Sig: 14695981039346656037}
	s.x = x
	t := &thread{id: 0, name: "main", wake: make(chan struct{}, 1)}
	s.threads = append(s.threads, t)
	s.cur = t
	go threadMain(t, main)
	t.wake <- struct{}{}
	<-s.finished
	x.Threads = len(s.threads)
	// teardown: unwind every thread that is still parked
	s.aborting = true
	for _, th := range s.threads {
		if !th.done {
			th.wake <- struct{}{}
			<-s.ack
		}
	}
	s.active, s.aborting = false, false
	s.threads = s.threads[:0]
	s.x = nil
	s.cur = nil
	return x
}
