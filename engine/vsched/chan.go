package vsched

import (
	"fmt"
	"reflect"
	"sort"
	"time"
)

// core is the untyped state of a channel.
type core struct {
	epoch  int
	id     int
	cap    int
	buf    []any
	closed bool
}

func (c *core) touch() {
	if c.epoch != s.epoch {
		// object survived from an earlier execution (should not happen for channels; be deterministic anyway)
		c.epoch = s.epoch
		c.id = NewObjID()
		c.buf = c.buf[:0]
		c.closed = false
	}
}

// Chan replaces `chan T`. The zero *Chan (nil) blocks forever like a nil channel.
type Chan[T any] struct {
	c core
}

// AnyChan is the untyped view used by ReflectSelect.
type AnyChan interface {
	coreOf() *core
}

func (c *Chan[T]) coreOf() *core {
	if c == nil {
		return nil
	}
	return &c.c
}

func MakeChan[T any](n int) *Chan[T] {
	ch := &Chan[T]{}
	ch.c.cap = n
	ch.c.epoch = s.epoch
	ch.c.id = NewObjID()
	return ch
}

func unbox[T any](v any) T {
	if v == nil {
		var z T
		return z
	}
	return v.(T)
}

func (sc *sched) doSend(c *core, v any, self *thread) {
	if c.closed {
		panic("send on closed channel")
	}
	if c.cap > 0 {
		c.buf = append(c.buf, v)
		return
	}
	t, i := sc.findPartner(c, self, false)
	if t == nil {
		panic("vsched: internal: unbuffered send without receiver")
	}
	t.op.done, t.op.rcase, t.op.rval, t.op.rok = true, i, v, true
	sc.performed(t, opRecv, c.id)
}

func (sc *sched) doRecv(c *core, self *thread) (any, bool) {
	if len(c.buf) > 0 {
		v := c.buf[0]
		c.buf[0] = nil
		c.buf = c.buf[1:]
		return v, true
	}
	if c.closed {
		return nil, false
	}
	t, i := sc.findPartner(c, self, true)
	if t == nil {
		panic("vsched: internal: unbuffered recv without sender")
	}
	var v any
	if i < 0 {
		v = t.op.val
	} else {
		v = t.op.cases[i].val
	}
	t.op.done, t.op.rcase = true, i
	sc.performed(t, opSend, c.id)
	return v, true
}

// inactive (no exploration running) or teardown: single-threaded best effort, never blocks.
func (c *Chan[T]) Send(v T) {
	if c == nil {
		if Active() {
			s.point(&op{kind: opSend, en: func() bool { return false }})
		}
		return
	}
	if !Active() {
		if s.aborting {
			return
		}
		if c.c.closed {
			panic("send on closed channel")
		}
		if len(c.c.buf) >= c.c.cap {
			panic("vsched: blocking send outside an exploration")
		}
		c.c.buf = append(c.c.buf, v)
		return
	}
	c.c.touch()
	o := &op{kind: opSend, obj: c.c.id, ch: &c.c, val: v}
	s.point(o)
	if o.done {
		return
	}
	s.performed(s.cur, opSend, c.c.id)
	s.doSend(&c.c, v, s.cur)
}

func (c *Chan[T]) Recv() T {
	v, _ := c.Recv2()
	return v
}

func (c *Chan[T]) Recv2() (T, bool) {
	var z T
	if c == nil {
		if Active() {
			s.point(&op{kind: opRecv, en: func() bool { return false }})
		}
		return z, false
	}
	if !Active() {
		if len(c.c.buf) > 0 {
			v := c.c.buf[0]
			c.c.buf = c.c.buf[1:]
			return unbox[T](v), true
		}
		if c.c.closed || s.aborting {
			return z, false
		}
		panic("vsched: blocking recv outside an exploration")
	}
	c.c.touch()
	o := &op{kind: opRecv, obj: c.c.id, ch: &c.c}
	s.point(o)
	if o.done {
		return unbox[T](o.rval), o.rok
	}
	s.performed(s.cur, opRecv, c.c.id)
	v, ok := s.doRecv(&c.c, s.cur)
	return unbox[T](v), ok
}

func (c *Chan[T]) Close() {
	if c == nil {
		panic("close of nil channel")
	}
	if !Active() {
		if c.c.closed && !s.aborting {
			panic("close of closed channel")
		}
		c.c.closed = true
		return
	}
	c.c.touch()
	s.point(&op{kind: opClose, obj: c.c.id})
	s.performed(s.cur, opClose, c.c.id)
	if c.c.closed {
		panic("close of closed channel")
	}
	c.c.closed = true
}

func (c *Chan[T]) Len() int {
	if c == nil {
		return 0
	}
	return len(c.c.buf)
}

func (c *Chan[T]) Cap() int {
	if c == nil {
		return 0
	}
	return c.c.cap
}

// ---------------------------------------------------------------------------------------------------
// select

// Case is one arm of a lowered select statement.
type Case interface {
	selCase() selCase
	deliver(v any, ok bool)
}

// RecvC holds the result of a receive arm.
type RecvC[T any] struct {
	ch *Chan[T]
	V  T
	OK bool
}

func RecvCase[T any](c *Chan[T]) *RecvC[T] { return &RecvC[T]{ch: c} }
func (r *RecvC[T]) selCase() selCase       { return selCase{ch: r.ch.coreOf()} }
func (r *RecvC[T]) deliver(v any, ok bool) { r.V, r.OK = unbox[T](v), ok }

type SendC[T any] struct {
	ch *Chan[T]
	v  T
}

func SendCase[T any](c *Chan[T], v T) *SendC[T] { return &SendC[T]{ch: c, v: v} }
func (r *SendC[T]) selCase() selCase            { return selCase{ch: r.ch.coreOf(), send: true, val: r.v} }
func (r *SendC[T]) deliver(v any, ok bool)      {}

// NativeRecvC is a receive arm on a native, close-only signalling channel (ctx.Done() and the like): it is
// ready exactly when the channel is closed.
type NativeRecvC[T any] struct {
	ch <-chan T
	V  T
	OK bool
}

func NativeRecvCase[T any](c <-chan T) *NativeRecvC[T] { return &NativeRecvC[T]{ch: c} }
func (r *NativeRecvC[T]) selCase() selCase {
	ch := r.ch
	return selCase{native: true, nready: func() bool {
		if ch == nil {
			return false
		}
		select {
		case _, ok := <-ch:
			_ = ok
			return true
		default:
			return false
		}
	}}
}
func (r *NativeRecvC[T]) deliver(v any, ok bool) {}

// Select executes a lowered select statement and returns the index of the arm taken, -1 for default.
func Select(hasDefault bool, cases ...Case) int {
	scs := make([]selCase, len(cases))
	for i, c := range cases {
		scs[i] = c.selCase()
	}
	if !Active() {
		// single-threaded best effort
		for i := range scs {
			cs := &scs[i]
			if cs.native {
				if cs.nready() {
					return i
				}
				continue
			}
			if cs.ch == nil {
				continue
			}
			if cs.send {
				if cs.ch.closed && !s.aborting {
					panic("send on closed channel")
				}
				if len(cs.ch.buf) < cs.ch.cap {
					cs.ch.buf = append(cs.ch.buf, cs.val)
					return i
				}
			} else if len(cs.ch.buf) > 0 {
				v := cs.ch.buf[0]
				cs.ch.buf = cs.ch.buf[1:]
				cases[i].deliver(v, true)
				return i
			} else if cs.ch.closed {
				cases[i].deliver(nil, false)
				return i
			}
		}
		if hasDefault || s.aborting {
			return -1
		}
		panic("vsched: blocking select outside an exploration")
	}
	o := &op{kind: opSelect, cases: scs, hasDef: hasDefault}
	for i := range scs {
		if scs[i].ch != nil {
			scs[i].ch.touch()
			if o.obj == 0 {
				o.obj = scs[i].ch.id
			}
		}
	}
	s.point(o)
	me := s.cur
	if o.done {
		cases[o.rcase].deliver(o.rval, o.rok)
		return o.rcase
	}
	var readyBuf [8]int
	ready := readyBuf[:0]
	for i := range scs {
		if s.caseReady(&scs[i], me) {
			ready = append(ready, i)
		}
	}
	if len(ready) == 0 {
		if !hasDefault {
			panic("vsched: internal: select scheduled with nothing ready")
		}
		// the default arm observed "not ready" on every channel of the select: order it against them
		for i := range scs {
			if scs[i].ch != nil {
				s.performed(me, opSelect, scs[i].ch.id)
			}
		}
		return -1
	}
	pick := ready[0]
	if len(ready) > 1 {
		pick = ready[s.choose(len(ready), 1, false)]
		p := &s.x.Points[len(s.x.Points)-1]
		p.Tid, p.OpKind = me.id, opSelect
	}
	cs := &scs[pick]
	switch {
	case cs.native:
		s.performed(me, opSelect, 0)
	case cs.send:
		s.performed(me, opSend, cs.ch.id)
		s.doSend(cs.ch, cs.val, me)
	default:
		s.performed(me, opRecv, cs.ch.id)
		v, ok := s.doRecv(cs.ch, me)
		cases[pick].deliver(v, ok)
	}
	me.hist = mix(me.hist, uint64(pick)+0x9000)
	return pick
}

// ReflectSelect replaces reflect.Select for receive-only case lists over shim channels.
func ReflectSelect(cases []reflect.SelectCase) (int, reflect.Value, bool) {
	idx := make([]int, 0, len(cases))
	scs := make([]Case, 0, len(cases))
	holders := make([]*anyRecv, 0, len(cases))
	hasDefault := false
	for i, c := range cases {
		switch c.Dir {
		case reflect.SelectDefault:
			hasDefault = true
		case reflect.SelectRecv:
			if !c.Chan.IsValid() {
				continue
			}
			ac, ok := c.Chan.Interface().(AnyChan)
			if !ok {
				panic("vsched: ReflectSelect on a native channel")
			}
			h := &anyRecv{c: ac.coreOf()}
			idx = append(idx, i)
			scs = append(scs, h)
			holders = append(holders, h)
		default:
			panic("vsched: ReflectSelect send case unsupported")
		}
	}
	k := Select(hasDefault, scs...)
	if k < 0 {
		for i, c := range cases {
			if c.Dir == reflect.SelectDefault {
				return i, reflect.Value{}, false
			}
		}
	}
	h := holders[k]
	var rv reflect.Value
	if h.v != nil {
		rv = reflect.ValueOf(h.v)
	}
	return idx[k], rv, h.ok
}

type anyRecv struct {
	c  *core
	v  any
	ok bool
}

func (r *anyRecv) selCase() selCase       { return selCase{ch: r.c} }
func (r *anyRecv) deliver(v any, ok bool) { r.v, r.ok = v, ok }

// ---------------------------------------------------------------------------------------------------
// map iteration order and time

// MapOrderDesc selects descending key order for rewritten `range` over maps (default ascending).
var MapOrderDesc bool

// Keys returns the keys of m in a deterministic order owned by the harness.
func Keys[M ~map[K]V, K comparable, V any](m M) []K {
	if len(m) == 0 {
		return nil
	}
	keys := make([]K, 0, len(m))
	for k := range m {
		keys = append(keys, k)
	}
	if len(keys) > 1 {
		sortKeys(keys)
		if MapOrderDesc {
			for i, j := 0, len(keys)-1; i < j; i, j = i+1, j-1 {
				keys[i], keys[j] = keys[j], keys[i]
			}
		}
	}
	return keys
}

func sortKeys[K comparable](keys []K) {
	switch ks := any(keys).(type) {
	case []string:
		sort.Strings(ks)
		return
	case []int:
		sort.Ints(ks)
		return
	}
	strs := make([]string, len(keys))
	for i, k := range keys {
		strs[i] = keyString(any(k))
	}
	sort.Sort(&byStr[K]{keys, strs})
}

func keyString(k any) string {
	switch v := k.(type) {
	case string:
		return v
	case fmt.Stringer:
		return v.String()
	case reflect.Type:
		return v.String()
	}
	rv := reflect.ValueOf(k)
	switch rv.Kind() {
	case reflect.String:
		return rv.String()
	case reflect.Int, reflect.Int8, reflect.Int16, reflect.Int32, reflect.Int64:
		return fmt.Sprintf("%020d", rv.Int()+(1<<62))
	case reflect.Uint, reflect.Uint8, reflect.Uint16, reflect.Uint32, reflect.Uint64:
		return fmt.Sprintf("%020d", rv.Uint())
	case reflect.Ptr, reflect.Chan, reflect.Func, reflect.UnsafePointer:
		// address order is not reproducible: fall back to the pointee's rendering
		if rv.Kind() == reflect.Ptr && !rv.IsNil() {
			return fmt.Sprintf("%T:%+v", k, rv.Elem().Interface())
		}
		return fmt.Sprintf("%T", k)
	}
	return fmt.Sprintf("%T:%+v", k, k)
}

type byStr[K any] struct {
	k []K
	s []string
}

func (b *byStr[K]) Len() int           { return len(b.k) }
func (b *byStr[K]) Less(i, j int) bool { return b.s[i] < b.s[j] }
func (b *byStr[K]) Swap(i, j int)      { b.k[i], b.k[j] = b.k[j], b.k[i]; b.s[i], b.s[j] = b.s[j], b.s[i] }

// Sleep replaces time.Sleep in instrumented code: the thread takes time, nothing more.
func Sleep(d time.Duration) { Yield() }

// NativeRecv2 replaces a blocking receive on a native close-only channel (ctx.Done()).
func NativeRecv2[T any](c <-chan T) (T, bool) {
	var z T
	if !Active() {
		if s.aborting {
			return z, false
		}
		v, ok := <-c
		return v, ok
	}
	defer func() { s.performed(s.cur, opGeneric, 0) }()
	s.point(&op{kind: opGeneric, en: func() bool {
		if c == nil {
			return false
		}
		select {
		case <-c:
			return true
		default:
			return false
		}
	}})
	return z, false
}

func NativeRecv[T any](c <-chan T) T {
	v, _ := NativeRecv2(c)
	return v
}
