// Package vsync replaces package sync in instrumented eino code.
package vsync

import (
	"github.com/cloudwego/eino/vsched"
)

type Locker interface {
	Lock()
	Unlock()
}

type Mutex struct {
	epoch int
	id    int
	held  bool
}

func (m *Mutex) touch() {
	if e := vsched.Epoch(); m.epoch != e {
		m.epoch, m.id, m.held = e, vsched.NewObjID(), false
	}
}

func (m *Mutex) Lock() {
	if !vsched.Active() {
		m.held = true
		return
	}
	m.touch()
	vsched.Block(vsched.OpLock, m.id, func() bool { return !m.held })
	m.held = true
}

func (m *Mutex) TryLock() bool {
	if vsched.Active() {
		m.touch()
		vsched.Block(vsched.OpLock, m.id, nil)
	}
	if m.held {
		return false
	}
	m.held = true
	return true
}

func (m *Mutex) Unlock() {
	if vsched.Active() {
		m.touch()
		if !m.held {
			panic("sync: unlock of unlocked mutex")
		}
	}
	m.held = false
}

type RWMutex struct {
	epoch   int
	id      int
	writer  bool
	readers int
}

func (m *RWMutex) touch() {
	if e := vsched.Epoch(); m.epoch != e {
		m.epoch, m.id, m.writer, m.readers = e, vsched.NewObjID(), false, 0
	}
}

func (m *RWMutex) Lock() {
	if !vsched.Active() {
		m.writer = true
		return
	}
	m.touch()
	vsched.Block(vsched.OpLock, m.id, func() bool { return !m.writer && m.readers == 0 })
	m.writer = true
}

func (m *RWMutex) Unlock() { m.writer = false }

func (m *RWMutex) RLock() {
	if !vsched.Active() {
		m.readers++
		return
	}
	m.touch()
	vsched.Block(vsched.OpRLock, m.id, func() bool { return !m.writer })
	m.readers++
}

func (m *RWMutex) RUnlock() {
	if m.readers > 0 {
		m.readers--
	}
}

func (m *RWMutex) RLocker() Locker { return (*rlocker)(m) }

type rlocker RWMutex

func (r *rlocker) Lock()   { (*RWMutex)(r).RLock() }
func (r *rlocker) Unlock() { (*RWMutex)(r).RUnlock() }

type Once struct {
	epoch   int
	id      int
	done    bool
	running bool
}

func (o *Once) touch() {
	if e := vsched.Epoch(); o.epoch != e {
		o.epoch, o.id, o.done, o.running = e, vsched.NewObjID(), false, false
	}
}

func (o *Once) Do(f func()) {
	if !vsched.Active() {
		if vsched.Aborting() {
			return
		}
		if !o.done {
			o.done = true
			f()
		}
		return
	}
	o.touch()
	vsched.Block(vsched.OpOnce, o.id, func() bool { return !o.running })
	if o.done {
		return
	}
	o.running = true
	defer func() {
		o.done = true
		o.running = false
	}()
	f()
}

type WaitGroup struct {
	epoch int
	id    int
	n     int
}

func (w *WaitGroup) touch() {
	if e := vsched.Epoch(); w.epoch != e {
		w.epoch, w.id, w.n = e, vsched.NewObjID(), 0
	}
}

func (w *WaitGroup) Add(d int) {
	w.touch()
	w.n += d
	if w.n < 0 && vsched.Active() {
		panic("sync: negative WaitGroup counter")
	}
}

func (w *WaitGroup) Done() { w.Add(-1) }

func (w *WaitGroup) Wait() {
	if !vsched.Active() {
		return
	}
	w.touch()
	vsched.Block(vsched.OpWGWait, w.id, func() bool { return w.n <= 0 })
}

type Cond struct {
	L       Locker
	epoch   int
	id      int
	waiters []*condWaiter
}

type condWaiter struct{ signalled bool }

func NewCond(l Locker) *Cond { return &Cond{L: l} }

func (c *Cond) touch() {
	if e := vsched.Epoch(); c.epoch != e {
		c.epoch, c.id, c.waiters = e, vsched.NewObjID(), nil
	}
}

func (c *Cond) Wait() {
	if !vsched.Active() {
		return
	}
	c.touch()
	w := &condWaiter{}
	c.waiters = append(c.waiters, w)
	c.L.Unlock()
	vsched.Block(vsched.OpCondWait, c.id, func() bool { return w.signalled })
	c.L.Lock()
}

func (c *Cond) Signal() {
	c.touch()
	if len(c.waiters) > 0 {
		c.waiters[0].signalled = true
		c.waiters = c.waiters[1:]
	}
}

func (c *Cond) Broadcast() {
	c.touch()
	for _, w := range c.waiters {
		w.signalled = true
	}
	c.waiters = nil
}

// Map is a plain map behind scheduling points (only for tolerance of edits that introduce sync.Map).
type Map struct {
	m map[any]any
}

func (m *Map) Load(k any) (any, bool) {
	vsched.Block(vsched.OpAtomic, 0, nil)
	v, ok := m.m[k]
	return v, ok
}

func (m *Map) Store(k, v any) {
	vsched.Block(vsched.OpAtomic, 0, nil)
	if m.m == nil {
		m.m = map[any]any{}
	}
	m.m[k] = v
}

func (m *Map) LoadOrStore(k, v any) (any, bool) {
	vsched.Block(vsched.OpAtomic, 0, nil)
	if m.m == nil {
		m.m = map[any]any{}
	}
	if old, ok := m.m[k]; ok {
		return old, true
	}
	m.m[k] = v
	return v, false
}

func (m *Map) Delete(k any) {
	vsched.Block(vsched.OpAtomic, 0, nil)
	delete(m.m, k)
}

func (m *Map) Range(f func(k, v any) bool) {
	for k, v := range m.m {
		if !f(k, v) {
			return
		}
	}
}

// Pool never reuses (reuse order would be another source of nondeterminism).
type Pool struct {
	New func() any
}

func (p *Pool) Get() any {
	if p.New != nil {
		return p.New()
	}
	return nil
}
func (p *Pool) Put(any) {}

func (m *Map) LoadAndDelete(k any) (any, bool) {
	vsched.Block(vsched.OpAtomic, 0, nil)
	v, ok := m.m[k]
	delete(m.m, k)
	return v, ok
}

func (m *Map) Swap(k, v any) (any, bool) {
	vsched.Block(vsched.OpAtomic, 0, nil)
	if m.m == nil {
		m.m = map[any]any{}
	}
	old, ok := m.m[k]
	m.m[k] = v
	return old, ok
}

func (m *Map) CompareAndSwap(k, o, n any) bool {
	vsched.Block(vsched.OpAtomic, 0, nil)
	if cur, ok := m.m[k]; ok && cur == o {
		m.m[k] = n
		return true
	}
	return false
}

func (m *Map) CompareAndDelete(k, o any) bool {
	vsched.Block(vsched.OpAtomic, 0, nil)
	if cur, ok := m.m[k]; ok && cur == o {
		delete(m.m, k)
		return true
	}
	return false
}
