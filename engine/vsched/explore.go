package vsched

import (
	"fmt"
	"time"
)

// Explorer performs stateless depth-first exploration by re-execution with iterative preemption bounding.
type Explorer struct {
	Bound      int           // max preemptions per execution (-1: unbounded)
	MaxExecs   int64         // cap on executions (0: none)
	Deadline   time.Time     // cap on wall time (zero: none)
	Horizon    int           // per-execution step horizon
	States     map[uint64]struct{} // distinct state fingerprints (nil: not collected)
	Shard      func(depth int, prefix []int) bool // optional: decide whether this worker owns a subtree (depth-2 sharding)
	HBCache    bool // prune executions that reach an already-explored happens-before state (sound for data-race-free code)
	cache      map[uint64]int32
	Pruned     int64

	// statistics
	Execs       int64
	Transitions int64
	MaxPoints   int
	MaxThreads  int
	Sigs        map[uint64]struct{} // distinct scheduling signatures
	Capped      bool
	CapReason   string

	// New builds a fresh scenario instance: main is run as thread 0; after the execution check judges it.
	New func() (main func(), check func(x *Exec) error)

	// first failure
	FailPrefix []int
	FailErr    error
	FailExec   *Exec
}

func (e *Explorer) capped() bool {
	if e.Capped {
		return true
	}
	if e.MaxExecs > 0 && e.Execs >= e.MaxExecs {
		e.Capped, e.CapReason = true, fmt.Sprintf("execution cap %d", e.MaxExecs)
		return true
	}
	if !e.Deadline.IsZero() && e.Execs%64 == 0 && time.Now().After(e.Deadline) {
		e.Capped, e.CapReason = true, "deadline"
		return true
	}
	return false
}

// InfraError is returned for failures of the machinery itself (nondeterminism not owned, horizon).
type InfraError struct{ Msg string }

func (e *InfraError) Error() string { return "infrastructure: " + e.Msg }

func (e *Explorer) runOne(prefix []int, debug bool) (*Exec, error) {
	main, check := e.New()
	cfg := RunConfig{Prefix: prefix, Horizon: e.Horizon, CollectStates: e.States != nil, Debug: debug}
	if !debug {
		cfg.Cache = e.cache
	}
	x := RunOnce(cfg, main)
	if x.Diverged != "" {
		return x, &InfraError{x.Diverged}
	}
	if x.Horizon {
		return x, &InfraError{"step horizon exceeded (spin loop in harness or framework?)"}
	}
	if x.Pruned {
		return x, nil
	}
	return x, check(x)
}

// Replay runs one prefix with tracing on and returns the execution and the oracle verdict.
func (e *Explorer) Replay(prefix []int) (*Exec, error) { return e.runOne(prefix, true) }

// Rerun runs one prefix again without tracing (messages are identical to the exploring run).
func (e *Explorer) Rerun(prefix []int) (*Exec, error) {
	saved := e.cache
	e.cache = nil
	defer func() { e.cache = saved }()
	return e.runOne(prefix, false)
}

// Run explores everything within the bound. It returns the first oracle failure (also kept in Fail*),
// an *InfraError for machinery failures, or nil.
func (e *Explorer) Run() error {
	if e.Sigs == nil {
		e.Sigs = map[uint64]struct{}{}
	}
	// determinism self-test: the default execution twice
	x1, err1 := e.runOne(nil, false)
	if _, ok := err1.(*InfraError); ok {
		return err1
	}
	x2, _ := e.runOne(nil, false)
	if x1.Sig != x2.Sig || len(x1.Points) != len(x2.Points) || x1.Steps != x2.Steps {
		return &InfraError{fmt.Sprintf("default schedule not reproducible: sig %x/%x points %d/%d steps %d/%d", x1.Sig, x2.Sig, len(x1.Points), len(x2.Points), x1.Steps, x2.Steps)}
	}
	if e.HBCache {
		e.cache = map[uint64]int32{}
	}
	return e.explore(nil, 0)
}

func (e *Explorer) explore(prefix []int, depth int) error {
	if e.capped() {
		return nil
	}
	x, err := e.runOne(prefix, false)
	e.Execs++
	if x.Pruned {
		e.Pruned++
	}
	e.Transitions += int64(x.Steps)
	if len(x.Points) > e.MaxPoints {
		e.MaxPoints = len(x.Points)
	}
	if x.Threads > e.MaxThreads {
		e.MaxThreads = x.Threads
	}
	if !x.Pruned {
		e.Sigs[x.Sig] = struct{}{}
	}
	if e.States != nil {
		for _, h := range x.StateHashes {
			e.States[h] = struct{}{}
		}
	}
	if err != nil {
		if e.FailErr == nil {
			e.FailErr, e.FailExec = err, x
			e.FailPrefix = make([]int, len(x.Points))
			for i, p := range x.Points {
				e.FailPrefix[i] = p.Chosen
			}
		}
		return err
	}
	// cumulative preemption cost before each point
	cost := 0
	for i := 0; i < len(x.Points); i++ {
		p := x.Points[i]
		if i >= len(prefix) {
			altCost := cost
			if p.Kind == 0 && p.RunEn {
				altCost++
			}
			if e.Bound < 0 || altCost <= e.Bound {
				for alt := 1; alt < p.N; alt++ {
					np := make([]int, i+1)
					for j := 0; j < i; j++ {
						np[j] = x.Points[j].Chosen
					}
					np[i] = alt
					if e.Shard != nil && depth < 2 && !e.Shard(depth+1, np) {
						continue
					}
					if err := e.explore(np, depth+1); err != nil {
						return err
					}
					if e.Capped {
						return nil
					}
				}
			}
		}
		if p.Kind == 0 && p.RunEn && p.Chosen != 0 {
			cost++
		}
	}
	return nil
}
