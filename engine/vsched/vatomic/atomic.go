// Package vatomic replaces sync/atomic in instrumented eino code: every operation is a scheduling point
// followed by the plain operation (exactly one thread runs at a time).
package vatomic

import (
	"unsafe"

	"github.com/cloudwego/eino/vsched"
)

func pt() { vsched.Block(vsched.OpAtomic, 0, nil) }

func AddInt32(p *int32, d int32) int32       { pt(); *p += d; return *p }
func AddInt64(p *int64, d int64) int64       { pt(); *p += d; return *p }
func AddUint32(p *uint32, d uint32) uint32   { pt(); *p += d; return *p }
func AddUint64(p *uint64, d uint64) uint64   { pt(); *p += d; return *p }
func AddUintptr(p *uintptr, d uintptr) uintptr { pt(); *p += d; return *p }
func LoadInt32(p *int32) int32               { pt(); return *p }
func LoadInt64(p *int64) int64               { pt(); return *p }
func LoadUint32(p *uint32) uint32            { pt(); return *p }
func LoadUint64(p *uint64) uint64            { pt(); return *p }
func LoadPointer(p *unsafe.Pointer) unsafe.Pointer { pt(); return *p }
func StoreInt32(p *int32, v int32)           { pt(); *p = v }
func StoreInt64(p *int64, v int64)           { pt(); *p = v }
func StoreUint32(p *uint32, v uint32)        { pt(); *p = v }
func StoreUint64(p *uint64, v uint64)        { pt(); *p = v }
func StorePointer(p *unsafe.Pointer, v unsafe.Pointer) { pt(); *p = v }
func SwapInt32(p *int32, v int32) int32      { pt(); o := *p; *p = v; return o }
func SwapInt64(p *int64, v int64) int64      { pt(); o := *p; *p = v; return o }
func SwapUint32(p *uint32, v uint32) uint32  { pt(); o := *p; *p = v; return o }
func SwapUint64(p *uint64, v uint64) uint64  { pt(); o := *p; *p = v; return o }
func CompareAndSwapInt32(p *int32, o, n int32) bool {
	pt()
	if *p == o {
		*p = n
		return true
	}
	return false
}
func CompareAndSwapInt64(p *int64, o, n int64) bool {
	pt()
	if *p == o {
		*p = n
		return true
	}
	return false
}
func CompareAndSwapUint32(p *uint32, o, n uint32) bool {
	pt()
	if *p == o {
		*p = n
		return true
	}
	return false
}
func CompareAndSwapUint64(p *uint64, o, n uint64) bool {
	pt()
	if *p == o {
		*p = n
		return true
	}
	return false
}
func CompareAndSwapPointer(p *unsafe.Pointer, o, n unsafe.Pointer) bool {
	pt()
	if *p == o {
		*p = n
		return true
	}
	return false
}

type Int32 struct{ v int32 }

func (x *Int32) Load() int32           { pt(); return x.v }
func (x *Int32) Store(v int32)         { pt(); x.v = v }
func (x *Int32) Add(d int32) int32     { pt(); x.v += d; return x.v }
func (x *Int32) Swap(v int32) int32    { pt(); o := x.v; x.v = v; return o }
func (x *Int32) CompareAndSwap(o, n int32) bool {
	pt()
	if x.v == o {
		x.v = n
		return true
	}
	return false
}

type Int64 struct{ v int64 }

func (x *Int64) Load() int64           { pt(); return x.v }
func (x *Int64) Store(v int64)         { pt(); x.v = v }
func (x *Int64) Add(d int64) int64     { pt(); x.v += d; return x.v }
func (x *Int64) Swap(v int64) int64    { pt(); o := x.v; x.v = v; return o }
func (x *Int64) CompareAndSwap(o, n int64) bool {
	pt()
	if x.v == o {
		x.v = n
		return true
	}
	return false
}

type Uint32 struct{ v uint32 }

func (x *Uint32) Load() uint32          { pt(); return x.v }
func (x *Uint32) Store(v uint32)        { pt(); x.v = v }
func (x *Uint32) Add(d uint32) uint32   { pt(); x.v += d; return x.v }
func (x *Uint32) Swap(v uint32) uint32  { pt(); o := x.v; x.v = v; return o }
func (x *Uint32) CompareAndSwap(o, n uint32) bool {
	pt()
	if x.v == o {
		x.v = n
		return true
	}
	return false
}

type Uint64 struct{ v uint64 }

func (x *Uint64) Load() uint64          { pt(); return x.v }
func (x *Uint64) Store(v uint64)        { pt(); x.v = v }
func (x *Uint64) Add(d uint64) uint64   { pt(); x.v += d; return x.v }
func (x *Uint64) Swap(v uint64) uint64  { pt(); o := x.v; x.v = v; return o }
func (x *Uint64) CompareAndSwap(o, n uint64) bool {
	pt()
	if x.v == o {
		x.v = n
		return true
	}
	return false
}

type Bool struct{ v bool }

func (x *Bool) Load() bool        { pt(); return x.v }
func (x *Bool) Store(v bool)      { pt(); x.v = v }
func (x *Bool) Swap(v bool) bool  { pt(); o := x.v; x.v = v; return o }
func (x *Bool) CompareAndSwap(o, n bool) bool {
	pt()
	if x.v == o {
		x.v = n
		return true
	}
	return false
}

type Value struct{ v any }

func (x *Value) Load() any       { pt(); return x.v }
func (x *Value) Store(v any)     { pt(); x.v = v }
func (x *Value) Swap(v any) any  { pt(); o := x.v; x.v = v; return o }
func (x *Value) CompareAndSwap(o, n any) bool {
	pt()
	if x.v == o {
		x.v = n
		return true
	}
	return false
}
