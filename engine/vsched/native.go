package vsched

// Native (scheduler inactive) support for the race pass: the check binaries are also built WITHOUT source
// rewriting, with -race, and their scenario bodies run as free goroutines (lib/harness/race.go). Nothing
// in this file is reachable while the scheduler is active, except the two no-op branches of HLock/HUnlock:
// they are no scheduling point, touch no thread history and no state hash.
//
// NOTE: compiled with the language version of eino's go.mod (go 1.18).

import (
	"fmt"
	"sync"
	"time"
)

// ---------------------------------------------------------------------------------------------------
// harness lock

var hmu sync.Mutex

// HLock protects the plain bookkeeping of harness bodies (slices, maps, counters shared between harness
// threads). Under the controlled scheduler exactly one thread runs at a time and a body is atomic between
// scheduling points, so it does nothing there. Natively it is one global mutex.
// Never hold it across a call into eino, a channel operation or Yield.
func HLock() {
	if s.active {
		return
	}
	hmu.Lock()
}

// HUnlock releases HLock.
func HUnlock() {
	if s.active {
		return
	}
	hmu.Unlock()
}

// ---------------------------------------------------------------------------------------------------
// native goroutine tracking

// natGen counts the live goroutines started through Go/GoNamed/NativeGo since the last reset. A run that is
// abandoned (NativeWait timed out) keeps its own generation, so its stragglers never disturb later runs.
type natGen struct {
	n       int
	waiters []chan struct{}
}

var nat = struct {
	mu     sync.Mutex
	cur    *natGen
	panics int
	first  string
}{cur: &natGen{}}

// NativeRecover (set by the race pass before any goroutine starts, never changed afterwards) makes a panic
// that escapes a tracked native goroutine a counted event instead of a process crash.
var NativeRecover bool

// nativeGo is the inactive path of GoNamed: `go f()` plus bookkeeping. With NativeRecover a panic escaping f
// is recorded instead of killing the process (under the scheduler it is recorded as Exec.ThreadPanic).
func nativeGo(name string, f func()) {
	nat.mu.Lock()
	g := nat.cur
	g.n++
	nat.mu.Unlock()
	rec := NativeRecover
	go func() {
		defer func() {
			if rec {
				if r := recover(); r != nil {
					nat.mu.Lock()
					nat.panics++
					if nat.first == "" {
						nat.first = fmt.Sprintf("%s: %v", name, r)
					}
					nat.mu.Unlock()
				}
			}
			nat.mu.Lock()
			g.n--
			if g.n == 0 {
				for _, w := range g.waiters {
					close(w)
				}
				g.waiters = nil
			}
			nat.mu.Unlock()
		}()
		f()
	}()
}

// NativeGo starts f as a tracked native goroutine (the race pass starts a scenario's main with it).
func NativeGo(name string, f func()) { nativeGo(name, f) }

// NativeWait waits until every goroutine tracked since the last reset has finished. On timeout it returns
// false and opens a new generation: the stragglers are forgotten.
func NativeWait(timeout time.Duration) bool {
	nat.mu.Lock()
	g := nat.cur
	if g.n == 0 {
		nat.mu.Unlock()
		return true
	}
	w := make(chan struct{})
	g.waiters = append(g.waiters, w)
	nat.mu.Unlock()
	t := time.NewTimer(timeout)
	defer t.Stop()
	select {
	case <-w:
		return true
	case <-t.C:
		nat.mu.Lock()
		if nat.cur == g {
			nat.cur = &natGen{}
		}
		nat.mu.Unlock()
		return false
	}
}

// NativePanics reports how many tracked goroutines ended with a panic (and the first message).
func NativePanics() (int, string) {
	nat.mu.Lock()
	defer nat.mu.Unlock()
	return nat.panics, nat.first
}
