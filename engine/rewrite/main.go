// Command rewrite instruments the eino sources for the controlled scheduler (Engine S, DESIGN.md §2.2).
//
//	rewrite -repo /repo -out <dir>
//
// It loads every non-test package of the module with full type information, rewrites channel / select /
// go / sync / atomic / reflect.Select / range-over-map constructs into calls to
// github.com/cloudwego/eino/vsched, writes the changed files under <dir>/<relative path> and prints a JSON
// report (files, counts, warnings) on stdout. Constructs it cannot model are reported as errors (exit 2).
package main

import (
	"bytes"
	"encoding/json"
	"flag"
	"fmt"
	"go/ast"
	"go/constant"
	"go/format"
	"go/token"
	"go/types"
	"os"
	"path/filepath"
	"sort"
	"strconv"
	"strings"

	"golang.org/x/tools/go/ast/astutil"
	"golang.org/x/tools/go/packages"
)

const (
	modPath   = "github.com/cloudwego/eino"
	vschedPkg = modPath + "/vsched"
	vsyncPkg  = modPath + "/vsched/vsync"
	vatomPkg  = modPath + "/vsched/vatomic"
)

type report struct {
	Files     []string       `json:"files"`
	Counts    map[string]int `json:"counts"`
	MapKeys   map[string]int `json:"map_range_key_types"`
	Warnings  []string       `json:"warnings"`
	Errors    []string       `json:"errors"`
	Packages  int            `json:"packages"`
}

var rep = report{Counts: map[string]int{}, MapKeys: map[string]int{}}

func instrumented(p *types.Package) bool {
	if p == nil {
		return false
	}
	path := p.Path()
	if !strings.HasPrefix(path, modPath) {
		return false
	}
	if strings.HasPrefix(path, modPath+"/internal/mock") || strings.HasPrefix(path, vschedPkg) {
		return false
	}
	return true
}

func main() {
	repo := flag.String("repo", "/repo", "eino checkout")
	out := flag.String("out", "", "output directory")
	patch := flag.String("patchdir", "", "directory of replacement files overlaid on the repo (development aid)")
	flag.Parse()
	overlay := map[string][]byte{}
	if *patch != "" {
		filepath.Walk(*patch, func(p string, fi os.FileInfo, err error) error {
			if err == nil && !fi.IsDir() && strings.HasSuffix(p, ".go") {
				rel, _ := filepath.Rel(*patch, p)
				b, _ := os.ReadFile(p)
				overlay[filepath.Join(*repo, rel)] = b
			}
			return nil
		})
	}
	if *out == "" {
		fmt.Fprintln(os.Stderr, "need -out")
		os.Exit(2)
	}
	cfg := &packages.Config{
		Mode: packages.NeedName | packages.NeedFiles | packages.NeedCompiledGoFiles | packages.NeedSyntax |
			packages.NeedTypes | packages.NeedTypesInfo | packages.NeedImports,
		Dir:     *repo,
		Overlay: overlay,
		Tests:   false,
		Env:   append(os.Environ(), "GOFLAGS=-mod=mod", "GOPROXY=off", "GOSUMDB=off", "GOTOOLCHAIN=local"),
	}
	pkgs, err := packages.Load(cfg, "./...")
	if err != nil {
		fmt.Fprintln(os.Stderr, "load:", err)
		os.Exit(2)
	}
	sort.Slice(pkgs, func(i, j int) bool { return pkgs[i].PkgPath < pkgs[j].PkgPath })
	for _, p := range pkgs {
		if !instrumented(p.Types) {
			continue
		}
		if len(p.Errors) > 0 {
			for _, e := range p.Errors {
				rep.Errors = append(rep.Errors, fmt.Sprintf("%s: %v", p.PkgPath, e))
			}
			continue
		}
		rep.Packages++
		for i, f := range p.Syntax {
			fn := p.CompiledGoFiles[i]
			rw := &rewriter{pkg: p, file: f, fset: p.Fset, info: p.TypesInfo}
			if rw.run() {
				rel, err := filepath.Rel(*repo, fn)
				if err != nil {
					rep.Errors = append(rep.Errors, err.Error())
					continue
				}
				var buf bytes.Buffer
				f.Comments = nil
				if err := format.Node(&buf, p.Fset, f); err != nil {
					rep.Errors = append(rep.Errors, fmt.Sprintf("%s: print: %v", rel, err))
					continue
				}
				dst := filepath.Join(*out, rel)
				os.MkdirAll(filepath.Dir(dst), 0o755)
				if err := os.WriteFile(dst, buf.Bytes(), 0o644); err != nil {
					rep.Errors = append(rep.Errors, err.Error())
					continue
				}
				rep.Files = append(rep.Files, rel)
			}
		}
	}
	sort.Strings(rep.Files)
	b, _ := json.MarshalIndent(rep, "", " ")
	fmt.Println(string(b))
	if len(rep.Errors) > 0 {
		os.Exit(2)
	}
}

type rewriter struct {
	pkg  *packages.Package
	file *ast.File
	fset *token.FileSet
	info *types.Info

	changed    bool
	needVsched bool
	n          int

	defs       map[types.Object]ast.Expr // obj := expr (for native-channel data flow)
	native     map[ast.Expr]bool         // channel operand expressions that are native channels
	recvTuple  map[*ast.UnaryExpr]bool
	mapRange   map[*ast.RangeStmt]bool
	chanRange  map[*ast.RangeStmt]bool
	nativeSel  map[*ast.SelectStmt]bool // left untouched
	chanTypes  map[ast.Expr]ast.Expr    // produced *vsched.Chan[T] node -> elem
	goMethVal  map[*ast.GoStmt]bool
	parents    map[ast.Node]ast.Node
}

func (r *rewriter) pos(n ast.Node) string {
	p := r.fset.Position(n.Pos())
	return fmt.Sprintf("%s:%d", filepath.Base(p.Filename), p.Line)
}

func (r *rewriter) errf(n ast.Node, f string, a ...any) {
	rep.Errors = append(rep.Errors, r.pos(n)+": "+fmt.Sprintf(f, a...))
}

func (r *rewriter) warnf(n ast.Node, f string, a ...any) {
	rep.Warnings = append(rep.Warnings, r.pos(n)+": "+fmt.Sprintf(f, a...))
}

func (r *rewriter) fresh(base string) string {
	r.n++
	return fmt.Sprintf("_vs%d_%s", r.n, base)
}

func isChan(t types.Type) bool {
	if t == nil {
		return false
	}
	_, ok := coreType(t).(*types.Chan)
	return ok
}

func coreType(t types.Type) types.Type {
	if tp, ok := t.(*types.TypeParam); ok {
		if iface, ok := tp.Constraint().Underlying().(*types.Interface); ok {
			for i := 0; i < iface.NumEmbeddeds(); i++ {
				switch e := iface.EmbeddedType(i).(type) {
				case *types.Union:
					if e.Len() > 0 {
						return e.Term(0).Type().Underlying()
					}
				default:
					return e.Underlying()
				}
			}
		}
		return t.Underlying()
	}
	return t.Underlying()
}

func unparen(e ast.Expr) ast.Expr {
	for {
		p, ok := e.(*ast.ParenExpr)
		if !ok {
			return e
		}
		e = p.X
	}
}

// isNative decides whether a channel-typed expression denotes a native (foreign) channel.
func (r *rewriter) isNative(e ast.Expr, depth int) bool {
	if depth > 8 {
		return false
	}
	switch e := unparen(e).(type) {
	case *ast.CallExpr:
		var obj types.Object
		switch f := unparen(e.Fun).(type) {
		case *ast.Ident:
			obj = r.info.Uses[f]
		case *ast.SelectorExpr:
			obj = r.info.Uses[f.Sel]
		case *ast.IndexExpr:
			if id, ok := f.X.(*ast.Ident); ok {
				obj = r.info.Uses[id]
			} else if se, ok := f.X.(*ast.SelectorExpr); ok {
				obj = r.info.Uses[se.Sel]
			}
		}
		if obj == nil {
			return false
		}
		if _, ok := obj.(*types.Builtin); ok {
			return false
		}
		if _, ok := obj.(*types.TypeName); ok {
			return false
		}
		if fn, ok := obj.(*types.Func); ok {
			// method of an interface declared elsewhere (context.Context.Done) or foreign function
			return !instrumented(fn.Pkg())
		}
		if v, ok := obj.(*types.Var); ok { // func-typed variable/field
			return !instrumented(v.Pkg())
		}
		return false
	case *ast.Ident:
		obj := r.info.Uses[e]
		if obj == nil {
			obj = r.info.Defs[e]
		}
		if obj == nil {
			return false
		}
		if !instrumented(obj.Pkg()) {
			return obj.Pkg() != nil
		}
		if rhs, ok := r.defs[obj]; ok {
			return r.isNative(rhs, depth+1)
		}
		return false
	case *ast.SelectorExpr:
		obj := r.info.Uses[e.Sel]
		if obj == nil {
			return false
		}
		return obj.Pkg() != nil && !instrumented(obj.Pkg())
	}
	return false
}

func (r *rewriter) run() bool {
	r.defs = map[types.Object]ast.Expr{}
	r.native = map[ast.Expr]bool{}
	r.recvTuple = map[*ast.UnaryExpr]bool{}
	r.mapRange = map[*ast.RangeStmt]bool{}
	r.chanRange = map[*ast.RangeStmt]bool{}
	r.nativeSel = map[*ast.SelectStmt]bool{}
	r.chanTypes = map[ast.Expr]ast.Expr{}
	r.goMethVal = map[*ast.GoStmt]bool{}

	// pass 0: definitions by inference (x := expr, var x = expr)
	ast.Inspect(r.file, func(n ast.Node) bool {
		switch n := n.(type) {
		case *ast.AssignStmt:
			if n.Tok == token.DEFINE && len(n.Lhs) == len(n.Rhs) {
				for i, l := range n.Lhs {
					if id, ok := l.(*ast.Ident); ok {
						if obj := r.info.Defs[id]; obj != nil {
							r.defs[obj] = n.Rhs[i]
						}
					}
				}
			}
		case *ast.ValueSpec:
			if n.Type == nil && len(n.Names) == len(n.Values) {
				for i, id := range n.Names {
					if obj := r.info.Defs[id]; obj != nil {
						r.defs[obj] = n.Values[i]
					}
				}
			}
		}
		return true
	})

	// pass 1: typed decisions on the unmodified tree
	ast.Inspect(r.file, func(n ast.Node) bool {
		switch n := n.(type) {
		case *ast.SendStmt:
			if r.isNative(n.Chan, 0) {
				r.native[n.Chan] = true
			}
		case *ast.UnaryExpr:
			if n.Op == token.ARROW {
				if r.isNative(n.X, 0) {
					r.native[n.X] = true
				}
				if tv, ok := r.info.Types[n]; ok {
					if _, isT := tv.Type.(*types.Tuple); isT {
						r.recvTuple[n] = true
					}
				}
			}
		case *ast.CallExpr:
			if id, ok := unparen(n.Fun).(*ast.Ident); ok && len(n.Args) == 1 {
				if _, isB := r.info.Uses[id].(*types.Builtin); isB && (id.Name == "close" || id.Name == "len" || id.Name == "cap") {
					if isChan(r.info.TypeOf(n.Args[0])) && r.isNative(n.Args[0], 0) {
						r.native[n.Args[0]] = true
					}
				}
			}
		case *ast.RangeStmt:
			t := r.info.TypeOf(n.X)
			if t != nil {
				switch ct := coreType(t).(type) {
				case *types.Map:
					r.mapRange[n] = true
					rep.MapKeys[r.pkg.Types.Name()+": "+types.TypeString(ct.Key(), func(p *types.Package) string { return p.Name() })]++
				case *types.Chan:
					if r.isNative(n.X, 0) {
						r.errf(n, "range over a native channel cannot be modelled")
					} else {
						r.chanRange[n] = true
					}
				}
			}
		case *ast.SelectStmt:
			allNative, hasDef, any := true, false, false
			for _, cl := range n.Body.List {
				cc := cl.(*ast.CommClause)
				if cc.Comm == nil {
					hasDef = true
					continue
				}
				any = true
				ch := commChan(cc.Comm)
				if ch == nil || !r.isNative(ch, 0) {
					allNative = false
				}
			}
			if any && allNative && hasDef {
				r.nativeSel[n] = true
			}
		case *ast.GoStmt:
			if se, ok := unparen(n.Call.Fun).(*ast.SelectorExpr); ok {
				if _, isSel := r.info.Selections[se]; isSel {
					r.goMethVal[n] = true
				}
			}
		}
		return true
	})

	// pass 2: mutate bottom-up
	skipSel := map[ast.Node]bool{}
	astutil.Apply(r.file, func(c *astutil.Cursor) bool {
		// do not descend into untouched native selects' comm clauses' channel ops
		if s, ok := c.Node().(*ast.SelectStmt); ok && r.nativeSel[s] {
			for _, cl := range s.Body.List {
				cc := cl.(*ast.CommClause)
				if cc.Comm != nil {
					skipSel[cc.Comm] = true
				}
			}
		}
		if skipSel[c.Node()] {
			return false
		}
		return true
	}, func(c *astutil.Cursor) bool {
		switch n := c.Node().(type) {
		case *ast.ChanType:
			r.mark()
			rep.Counts["chan_type"]++
			star := &ast.StarExpr{X: &ast.IndexExpr{X: r.vs("Chan"), Index: n.Value}}
			r.chanTypes[star] = n.Value
			c.Replace(star)
		case *ast.CallExpr:
			r.rewriteCall(c, n)
		case *ast.SendStmt:
			if r.native[n.Chan] {
				r.errf(n, "send on a native channel cannot be modelled")
				break
			}
			r.mark()
			rep.Counts["send"]++
			c.Replace(&ast.ExprStmt{X: &ast.CallExpr{Fun: &ast.SelectorExpr{X: n.Chan, Sel: ast.NewIdent("Send")}, Args: []ast.Expr{n.Value}}})
		case *ast.UnaryExpr:
			if n.Op != token.ARROW {
				break
			}
			r.mark()
			rep.Counts["recv"]++
			if r.native[n.X] {
				name := "NativeRecv"
				if r.recvTuple[n] {
					name = "NativeRecv2"
				}
				c.Replace(&ast.CallExpr{Fun: r.vs(name), Args: []ast.Expr{n.X}})
				break
			}
			name := "Recv"
			if r.recvTuple[n] {
				name = "Recv2"
			}
			c.Replace(&ast.CallExpr{Fun: &ast.SelectorExpr{X: n.X, Sel: ast.NewIdent(name)}})
		case *ast.RangeStmt:
			if r.mapRange[n] {
				r.rewriteMapRange(c, n)
			} else if r.chanRange[n] {
				r.rewriteChanRange(c, n)
			}
		case *ast.SelectStmt:
			if !r.nativeSel[n] {
				r.rewriteSelect(c, n)
			}
		case *ast.GoStmt:
			r.rewriteGo(c, n)
		case *ast.ImportSpec:
			p, _ := strconv.Unquote(n.Path.Value)
			switch p {
			case "sync":
				r.mark()
				if n.Name == nil {
					n.Name = ast.NewIdent("sync")
				}
				n.Path = &ast.BasicLit{Kind: token.STRING, Value: strconv.Quote(vsyncPkg)}
				rep.Counts["import_sync"]++
			case "sync/atomic":
				r.mark()
				if n.Name == nil {
					n.Name = ast.NewIdent("atomic")
				}
				n.Path = &ast.BasicLit{Kind: token.STRING, Value: strconv.Quote(vatomPkg)}
				rep.Counts["import_atomic"]++
			}
		}
		return true
	})

	if r.needVsched {
		astutil.AddNamedImport(r.fset, r.file, "vsched", vschedPkg)
	}
	if r.changed {
		for _, p := range []string{"time", "reflect"} {
			if !astutil.UsesImport(r.file, p) {
				astutil.DeleteImport(r.fset, r.file, p)
			}
		}
	}
	return r.changed
}

func (r *rewriter) mark() { r.changed = true }

func (r *rewriter) vs(name string) ast.Expr {
	r.needVsched = true
	r.changed = true
	return &ast.SelectorExpr{X: ast.NewIdent("vsched"), Sel: ast.NewIdent(name)}
}

func commChan(s ast.Stmt) ast.Expr {
	switch s := s.(type) {
	case *ast.SendStmt:
		return s.Chan
	case *ast.ExprStmt:
		if u, ok := unparen(s.X).(*ast.UnaryExpr); ok && u.Op == token.ARROW {
			return u.X
		}
	case *ast.AssignStmt:
		if len(s.Rhs) == 1 {
			if u, ok := unparen(s.Rhs[0]).(*ast.UnaryExpr); ok && u.Op == token.ARROW {
				return u.X
			}
		}
	}
	return nil
}

func (r *rewriter) calleeObj(call *ast.CallExpr) types.Object {
	switch f := unparen(call.Fun).(type) {
	case *ast.Ident:
		return r.info.Uses[f]
	case *ast.SelectorExpr:
		return r.info.Uses[f.Sel]
	}
	return nil
}

func (r *rewriter) rewriteCall(c *astutil.Cursor, n *ast.CallExpr) {
	obj := r.calleeObj(n)
	if obj == nil {
		return
	}
	if b, ok := obj.(*types.Builtin); ok {
		switch b.Name() {
		case "make":
			if len(n.Args) >= 1 {
				if elem, ok := r.chanTypes[n.Args[0]]; ok {
					var size ast.Expr = &ast.BasicLit{Kind: token.INT, Value: "0"}
					if len(n.Args) > 1 {
						size = n.Args[1]
					}
					rep.Counts["make_chan"]++
					c.Replace(&ast.CallExpr{Fun: &ast.IndexExpr{X: r.vs("MakeChan"), Index: elem}, Args: []ast.Expr{size}})
				}
			}
		case "close", "len", "cap":
			if len(n.Args) == 1 && isChan(r.info.TypeOf(n.Args[0])) {
				if r.native[n.Args[0]] {
					return // native channel: leave alone
				}
				m := map[string]string{"close": "Close", "len": "Len", "cap": "Cap"}[b.Name()]
				rep.Counts[b.Name()+"_chan"]++
				r.mark()
				c.Replace(&ast.CallExpr{Fun: &ast.SelectorExpr{X: n.Args[0], Sel: ast.NewIdent(m)}})
			}
		}
		return
	}
	fn, ok := obj.(*types.Func)
	if !ok || fn.Pkg() == nil {
		return
	}
	full := fn.Pkg().Path() + "." + fn.Name()
	switch full {
	case "reflect.Select":
		rep.Counts["reflect_select"]++
		n.Fun = r.vs("ReflectSelect")
	case "time.Sleep":
		rep.Counts["time_sleep"]++
		n.Fun = r.vs("Sleep")
	case "time.After", "time.Tick", "time.NewTimer", "time.NewTicker", "time.AfterFunc":
		r.warnf(n, "%s in instrumented code: timers are not owned by the scheduler", full)
	case "time.Now", "time.Since":
		r.warnf(n, "%s in instrumented code: clock reads are not replayable", full)
	}
	if fn.Pkg().Path() == "math/rand" || fn.Pkg().Path() == "math/rand/v2" || fn.Pkg().Path() == "crypto/rand" {
		r.warnf(n, "%s in instrumented code: randomness is not replayable", full)
	}
}

func ident(s string) *ast.Ident { return ast.NewIdent(s) }

func define(name string, v ast.Expr) ast.Stmt {
	return &ast.AssignStmt{Lhs: []ast.Expr{ident(name)}, Tok: token.DEFINE, Rhs: []ast.Expr{v}}
}

// replaceStmt replaces the statement under the cursor by a block; a label on the original statement is
// moved onto `inner` (so that break/continue L keep working).
func (r *rewriter) replaceStmt(c *astutil.Cursor, pre []ast.Stmt, inner ast.Stmt) {
	if ls, ok := c.Parent().(*ast.LabeledStmt); ok {
		// the cursor cannot replace the parent; restructure in place: L: {pre; inner}  =>  handled by
		// turning the labeled statement's body into the inner statement and hoisting pre into a block
		// around it is impossible from here, so label the inner statement inside the block instead.
		lab := &ast.LabeledStmt{Label: ident(ls.Label.Name), Stmt: inner}
		ls.Label = ident(r.fresh("lbl")) // old label name now unused on the outer statement
		// an unused label is a compile error: add a trivial (never executed) use first
		use := &ast.IfStmt{Cond: ident("false"), Body: &ast.BlockStmt{List: []ast.Stmt{&ast.BranchStmt{Tok: token.GOTO, Label: ident(ls.Label.Name)}}}}
		blk := &ast.BlockStmt{List: append(append([]ast.Stmt{use}, pre...), lab)}
		c.Replace(blk)
		return
	}
	if len(pre) == 0 {
		c.Replace(inner)
		return
	}
	c.Replace(&ast.BlockStmt{List: append(pre, inner)})
}

func pureExpr(e ast.Expr) bool {
	switch e := unparen(e).(type) {
	case *ast.Ident:
		return true
	case *ast.SelectorExpr:
		return pureExpr(e.X)
	}
	return false
}

func (r *rewriter) rewriteMapRange(c *astutil.Cursor, n *ast.RangeStmt) {
	rep.Counts["range_map"]++
	r.mark()
	var pre []ast.Stmt
	m := n.X
	if !pureExpr(m) {
		name := r.fresh("m")
		pre = append(pre, define(name, m))
		m = ident(name)
	}
	keyName := r.fresh("k")
	var head []ast.Stmt
	isBlank := func(e ast.Expr) bool {
		if e == nil {
			return true
		}
		id, ok := e.(*ast.Ident)
		return ok && id.Name == "_"
	}
	idx := func() ast.Expr { return &ast.IndexExpr{X: m, Index: ident(keyName)} }
	okName := r.fresh("ok")
	if isBlank(n.Value) {
		// presence check only
		head = append(head, &ast.AssignStmt{Lhs: []ast.Expr{ident("_"), ident(okName)}, Tok: token.DEFINE, Rhs: []ast.Expr{idx()}})
	} else if n.Tok == token.DEFINE {
		head = append(head, &ast.AssignStmt{Lhs: []ast.Expr{n.Value, ident(okName)}, Tok: token.DEFINE, Rhs: []ast.Expr{idx()}})
	} else {
		tmp := r.fresh("v")
		head = append(head, &ast.AssignStmt{Lhs: []ast.Expr{ident(tmp), ident(okName)}, Tok: token.DEFINE, Rhs: []ast.Expr{idx()}})
		head = append(head, &ast.AssignStmt{Lhs: []ast.Expr{n.Value}, Tok: token.ASSIGN, Rhs: []ast.Expr{ident(tmp)}})
	}
	head = append(head, &ast.IfStmt{Cond: &ast.UnaryExpr{Op: token.NOT, X: ident(okName)}, Body: &ast.BlockStmt{List: []ast.Stmt{&ast.BranchStmt{Tok: token.CONTINUE}}}})
	if !isBlank(n.Key) {
		tok := n.Tok
		if tok != token.DEFINE {
			tok = token.ASSIGN
		}
		head = append(head, &ast.AssignStmt{Lhs: []ast.Expr{n.Key}, Tok: tok, Rhs: []ast.Expr{ident(keyName)}})
		if tok == token.DEFINE {
			// the key may be unused when only ranging for the value with a named key: keep the compiler quiet
			head = append(head, &ast.AssignStmt{Lhs: []ast.Expr{ident("_")}, Tok: token.ASSIGN, Rhs: []ast.Expr{n.Key}})
		}
	}
	body := &ast.BlockStmt{List: append(head, n.Body.List...)}
	loop := &ast.RangeStmt{Key: ident("_"), Value: ident(keyName), Tok: token.DEFINE, X: &ast.CallExpr{Fun: r.vs("Keys"), Args: []ast.Expr{m}}, Body: body}
	r.replaceStmt(c, pre, loop)
}

func (r *rewriter) rewriteChanRange(c *astutil.Cursor, n *ast.RangeStmt) {
	rep.Counts["range_chan"]++
	r.mark()
	var pre []ast.Stmt
	ch := n.X
	if !pureExpr(ch) {
		name := r.fresh("c")
		pre = append(pre, define(name, ch))
		ch = ident(name)
	}
	okName := r.fresh("ok")
	recv := &ast.CallExpr{Fun: &ast.SelectorExpr{X: ch, Sel: ident("Recv2")}}
	var head []ast.Stmt
	if n.Key == nil {
		head = append(head, &ast.AssignStmt{Lhs: []ast.Expr{ident("_"), ident(okName)}, Tok: token.DEFINE, Rhs: []ast.Expr{recv}})
	} else if n.Tok == token.DEFINE {
		head = append(head, &ast.AssignStmt{Lhs: []ast.Expr{n.Key, ident(okName)}, Tok: token.DEFINE, Rhs: []ast.Expr{recv}})
	} else {
		tmp := r.fresh("v")
		head = append(head, &ast.AssignStmt{Lhs: []ast.Expr{ident(tmp), ident(okName)}, Tok: token.DEFINE, Rhs: []ast.Expr{recv}})
		head = append(head, &ast.IfStmt{Cond: ident(okName), Body: &ast.BlockStmt{List: []ast.Stmt{&ast.AssignStmt{Lhs: []ast.Expr{n.Key}, Tok: token.ASSIGN, Rhs: []ast.Expr{ident(tmp)}}}}})
	}
	head = append(head, &ast.IfStmt{Cond: &ast.UnaryExpr{Op: token.NOT, X: ident(okName)}, Body: &ast.BlockStmt{List: []ast.Stmt{&ast.BranchStmt{Tok: token.BREAK}}}})
	loop := &ast.ForStmt{Body: &ast.BlockStmt{List: append(head, n.Body.List...)}}
	r.replaceStmt(c, pre, loop)
}

func (r *rewriter) rewriteSelect(c *astutil.Cursor, n *ast.SelectStmt) {
	rep.Counts["select"]++
	r.mark()
	var pre []ast.Stmt
	var args []ast.Expr
	var clauses []ast.Stmt
	hasDef := false
	idx := 0
	for _, cl := range n.Body.List {
		cc := cl.(*ast.CommClause)
		if cc.Comm == nil {
			hasDef = true
			clauses = append(clauses, &ast.CaseClause{List: nil, Body: cc.Body})
			continue
		}
		var body []ast.Stmt
		switch s := cc.Comm.(type) {
		case *ast.SendStmt: // already rewritten children? no: comm statements are visited before the select (post-order)
			r.errf(n, "internal: unexpected raw send in select")
		case *ast.ExprStmt:
			call, _ := unparen(s.X).(*ast.CallExpr)
			kind, chExpr, val := r.classifyComm(call)
			switch kind {
			case "send":
				cn, vn := r.fresh("c"), r.fresh("v")
				pre = append(pre, define(cn, chExpr), define(vn, val))
				args = append(args, &ast.CallExpr{Fun: r.vs("SendCase"), Args: []ast.Expr{ident(cn), ident(vn)}})
			case "recv", "nrecv":
				hn := r.fresh("r")
				ctor := "RecvCase"
				if kind == "nrecv" {
					ctor = "NativeRecvCase"
				}
				pre = append(pre, define(hn, &ast.CallExpr{Fun: r.vs(ctor), Args: []ast.Expr{chExpr}}))
				args = append(args, ident(hn))
			default:
				r.errf(n, "unsupported select communication")
			}
		case *ast.AssignStmt:
			call, _ := unparen(s.Rhs[0]).(*ast.CallExpr)
			kind, chExpr, _ := r.classifyComm(call)
			if kind != "recv" && kind != "nrecv" {
				r.errf(n, "unsupported select receive form")
				break
			}
			hn := r.fresh("r")
			ctor := "RecvCase"
			if kind == "nrecv" {
				ctor = "NativeRecvCase"
			}
			pre = append(pre, define(hn, &ast.CallExpr{Fun: r.vs(ctor), Args: []ast.Expr{chExpr}}))
			args = append(args, ident(hn))
			rhs := []ast.Expr{&ast.SelectorExpr{X: ident(hn), Sel: ident("V")}}
			if len(s.Lhs) == 2 {
				rhs = append(rhs, &ast.SelectorExpr{X: ident(hn), Sel: ident("OK")})
			}
			allBlank := true
			for _, l := range s.Lhs {
				if id, ok := l.(*ast.Ident); !ok || id.Name != "_" {
					allBlank = false
				}
			}
			tok := s.Tok
			if allBlank {
				tok = token.ASSIGN
			}
			body = append(body, &ast.AssignStmt{Lhs: s.Lhs, Tok: tok, Rhs: rhs})
		default:
			r.errf(n, "unsupported select communication %T", s)
		}
		clauses = append(clauses, &ast.CaseClause{List: []ast.Expr{&ast.BasicLit{Kind: token.INT, Value: strconv.Itoa(idx)}}, Body: append(body, cc.Body...)})
		idx++
	}
	if !hasDef {
		clauses = append(clauses, &ast.CaseClause{List: nil, Body: []ast.Stmt{&ast.ExprStmt{X: &ast.CallExpr{Fun: ident("panic"), Args: []ast.Expr{&ast.BasicLit{Kind: token.STRING, Value: `"vsched: bad select index"`}}}}}})
	}
	hd := "false"
	if hasDef {
		hd = "true"
	}
	sw := &ast.SwitchStmt{Tag: &ast.CallExpr{Fun: r.vs("Select"), Args: append([]ast.Expr{ident(hd)}, args...)}, Body: &ast.BlockStmt{List: clauses}}
	r.replaceStmt(c, pre, sw)
}

// classifyComm recognises the already-rewritten forms c.Send(v), c.Recv(), c.Recv2(), vsched.NativeRecv(c).
func (r *rewriter) classifyComm(call *ast.CallExpr) (kind string, ch ast.Expr, val ast.Expr) {
	if call == nil {
		return "", nil, nil
	}
	se, ok := call.Fun.(*ast.SelectorExpr)
	if !ok {
		return "", nil, nil
	}
	if id, ok := se.X.(*ast.Ident); ok && id.Name == "vsched" && (se.Sel.Name == "NativeRecv" || se.Sel.Name == "NativeRecv2") && len(call.Args) == 1 {
		return "nrecv", call.Args[0], nil
	}
	switch se.Sel.Name {
	case "Send":
		if len(call.Args) == 1 {
			return "send", se.X, call.Args[0]
		}
	case "Recv", "Recv2":
		if len(call.Args) == 0 {
			return "recv", se.X, nil
		}
	}
	return "", nil, nil
}

func (r *rewriter) rewriteGo(c *astutil.Cursor, n *ast.GoStmt) {
	rep.Counts["go"]++
	r.mark()
	call := n.Call
	var pre []ast.Stmt
	fun := call.Fun
	if r.goMethVal[n] {
		fnName := r.fresh("f")
		pre = append(pre, define(fnName, fun))
		fun = ident(fnName)
	} else if fl, ok := unparen(fun).(*ast.FuncLit); ok {
		fun = &ast.ParenExpr{X: fl}
	}
	var args []ast.Expr
	for _, a := range call.Args {
		if tv, ok := r.info.Types[a]; ok && (tv.Value != nil || tv.IsNil()) {
			_ = constant.Unknown
			args = append(args, a)
			continue
		}
		if _, isLit := unparen(a).(*ast.FuncLit); isLit {
			args = append(args, a)
			continue
		}
		an := r.fresh("a")
		pre = append(pre, define(an, a))
		args = append(args, ident(an))
	}
	inner := &ast.CallExpr{Fun: fun, Args: args, Ellipsis: call.Ellipsis}
	if call.Ellipsis == token.NoPos {
		inner.Ellipsis = token.NoPos
	} else {
		inner.Ellipsis = 1
	}
	goCall := &ast.ExprStmt{X: &ast.CallExpr{Fun: r.vs("Go"), Args: []ast.Expr{&ast.FuncLit{Type: &ast.FuncType{Params: &ast.FieldList{}}, Body: &ast.BlockStmt{List: []ast.Stmt{&ast.ExprStmt{X: inner}}}}}}}
	r.replaceStmt(c, pre, goCall)
}
