#!/bin/bash
# Generic race pass of an Engine-S check:  racepass.sh <package dir, e.g. ./checks/c17> [arguments of the check binary ...]
#
# Builds the check's OWN main package natively with `go build -race` against eino as it is in /repo (no source
# rewriting). Overlaid are only: the vsched package (the checks import github.com/cloudwego/eino/vsched; natively
# it is inactive: Yield = runtime.Gosched, GoNamed = go f() + tracking, HLock = a real mutex), the export stubs
# under /verif/overlay, and the files of VERIF_PATCH_DIR (development aid, like ./check).
# Then runs the binary in race-pass mode (lib/harness/race.go: `-racepass <reps>` and friends are passed through)
# with GOMAXPROCS=4 and GORACE=halt_on_error=0 under `timeout`.
# Output: the binary's RACEPASS* lines and the race detector's reports, merged (stdout).
# Exit: the binary's exit code (66 when the detector reported races, 124 on timeout), 3 when the build failed.
# Environment: RACEPASS_TIMEOUT = seconds for the run of the binary (default 60).
# Scratch lives in a mktemp directory under /tmp that is removed on exit.
set -u
if [ $# -lt 1 ]; then
  echo "usage: racepass.sh <package dir> [args...]" >&2
  exit 3
fi
pkg=$1
shift
export GOFLAGS=-mod=mod GOPROXY=off GOSUMDB=off GOTOOLCHAIN=local CGO_ENABLED=1
VERIF=/verif
REPO=/repo
work=$(mktemp -d /tmp/verif-racepass-XXXXXX) || exit 3
trap 'rm -rf "$work"' EXIT
trap 'exit 143' TERM INT HUP   # a caller that gives up sends TERM: leave through the EXIT trap

emit() { # emit <path inside the eino module> <file>
  [ $first = 1 ] || echo ','
  first=0
  printf '"%s/%s": "%s"' "$REPO" "$1" "$2"
}
{
  echo '{"Replace":{'
  first=1
  for sub in "" vsync vatomic; do
    for f in "$VERIF/engine/vsched/$sub"/*.go; do
      case "$f" in *_test.go) continue;; esac
      [ -f "$f" ] || continue
      emit "vsched/${sub:+$sub/}$(basename "$f")" "$f"
    done
  done
  while IFS= read -r f; do
    emit "${f#"$VERIF/overlay/"}" "$f"
  done < <(find "$VERIF/overlay" -name '*.go' -type f | sort)
  if [ -n "${VERIF_PATCH_DIR:-}" ] && [ -d "$VERIF_PATCH_DIR" ]; then
    pd=${VERIF_PATCH_DIR%/}
    while IFS= read -r f; do
      emit "${f#"$pd"/}" "$f"
    done < <(find "$pd" -name '*.go' -type f | sort)
  fi
  echo
  echo '}}'
} > "$work/overlay.json"

cd "$VERIF" || exit 3
# the worker that starts this script runs with GOMAXPROCS=1 / GOGC / GOMEMLIMIT: none of that is meant for the build
cover=()
if [ -n "${RACEPASS_COVER:-}" ]; then
  # development aid: statement coverage of eino by the free runs of the scenario bodies (GOCOVERDIR=$RACEPASS_COVER)
  e=github.com/cloudwego/eino
  cover=(-cover "-coverpkg=$e/compose,$e/schema,$e/callbacks,$e/internal/...,$e/flow/...,$e/utils/...,$e/components/...,verif/${pkg#./}")
  mkdir -p "$RACEPASS_COVER"
  export GOCOVERDIR="$RACEPASS_COVER"
fi
if ! env -u GOMAXPROCS -u GOGC -u GOMEMLIMIT go build -race "${cover[@]}" -tags verif -overlay "$work/overlay.json" -o "$work/racebin" "$pkg" 2>&1; then
  echo "racepass.sh: build failed"
  exit 3
fi
env -u GOGC -u GOMEMLIMIT GOMAXPROCS=4 GORACE="halt_on_error=0 atexit_sleep_ms=50" timeout -k 2 "${RACEPASS_TIMEOUT:-60}" "$work/racebin" "$@" 2>&1
