#!/usr/bin/env python3
"""Third batch of own mutants: the candidates that the seeding sub-agents of round 5 wrote down but did not
implement. Same procedure as tools_mkmut.py / tools_mkmut2.py: apply in a scratch worktree, build, run eino's
suite, keep the patch only if the suite passes."""
import subprocess,sys,os
WT='/tmp/mkmut-wt'
env=dict(os.environ,GOFLAGS='-mod=mod',GOPROXY='off',GOSUMDB='off',GOTOOLCHAIN='local')
def sh(c,**k): return subprocess.run(c,shell=True,capture_output=True,text=True,env=env,**k)
if not os.path.isdir(WT): sh(f'git -C /repo worktree add --detach {WT}')
muts=[
 ("C05-dagchannel-load-forgets-skipped","compose/dag.go",[("""	ch.DataPredecessors = dc.DataPredecessors
	ch.Skipped = dc.Skipped
	ch.Values = dc.Values""","""	ch.DataPredecessors = dc.DataPredecessors
	ch.Values = dc.Values""")]),
 ("C14-toslicevalue-compares-kinds","internal/concat.go",[("""		if typ != vt {
			return reflect.Value{}, fmt.Errorf("unexpected slice element type. Got %v, expected %v", typ, vt)""","""		if vt == nil || typ.Kind() != vt.Kind() {
			return reflect.Value{}, fmt.Errorf("unexpected slice element type. Got %v, expected %v", typ, vt)""")]),
 ("C06-empty-stream-concat-gives-zero-value","compose/generic_helper.go",[("""				if errors.Is(err, emptyStreamConcatErr) {
					return nil, nil
				}
				return nil, err
			}
			return value, nil
		},
		restoreStream: func(a any) (streamReader, error) {""","""				if errors.Is(err, emptyStreamConcatErr) {
					return t, nil
				}
				return nil, err
			}
			return value, nil
		},
		restoreStream: func(a any) (streamReader, error) {""")]),
 ("C16-extractoption-skips-callback-options-early","compose/utils.go",[("""	for _, opt := range opts {
		if len(opt.paths) == 0 {
			// common, discard callback, filter option by type
			if len(opt.options) == 0 {
				continue
			}
			for name, c := range nodes {""","""	for _, opt := range opts {
		if len(opt.options) == 0 {
			// callbacks only: handled by initNodeCallbacks
			continue
		}
		if len(opt.paths) == 0 {
			// common, filter option by type
			for name, c := range nodes {""")]),
 ("C16-deepcopy-loses-handlers","compose/graph_call_options.go",[("""	nHandler := make([]callbacks.Handler, len(o.handler))
	copy(nHandler, o.handler)
""","""	nHandler := make([]callbacks.Handler, 0, len(o.handler))
""")]),
 ("C15-indirect-mappings-not-registered","compose/workflow.go",[("""	if options.noDirectDependency {
		n.addInputs = append(n.addInputs, func() error {
			var paths []FieldPath
			for _, input := range inputs {
				paths = append(paths, input.targetPath())
			}
			if err := n.checkAndAddMappedPath(paths); err != nil {
				return err
			}

			if err := n.g.addEdgeWithMappings(fromNodeKey, n.key, true, false, inputs...); err != nil {""","""	if options.noDirectDependency {
		n.addInputs = append(n.addInputs, func() error {
			if err := n.g.addEdgeWithMappings(fromNodeKey, n.key, true, false, inputs...); err != nil {""")]),
 ("C20-validatedag-start-successor-always-ready","compose/graph.go",[("""				if pre == START {
					m[node] -= 1
				}""","""				if pre == START {
					m[node] = 0
					break
				}""")]),
 ("C20-appendparallel-single-member-accepted","compose/chain.go",[("""	if len(p.nodes) <= 1 {""","""	if len(p.nodes) < 1 {""")]),
 ("C18-return-directly-last-call-wins","flow/agent/react/react.go",[("""	for _, toolCall := range input.ToolCalls {
		if _, ok := toolReturnDirectly[toolCall.Function.Name]; ok {
			return toolCall.ID
		}
	}

	return \"\"
}""","""	id := \"\"
	for _, toolCall := range input.ToolCalls {
		if _, ok := toolReturnDirectly[toolCall.Function.Name]; ok {
			id = toolCall.ID
		}
	}

	return id
}""")]),
 ("C14-toolcall-name-from-first-fragment-only","schema/message.go",[("""			if chunk.Function.Name != "" {
				if toolName == "" {
					toolName = chunk.Function.Name
				} else if toolName != chunk.Function.Name {""","""			if chunk.Function.Name != "" {
				if toolName == "" && n == v[0] {
					toolName = chunk.Function.Name
				} else if toolName != "" && toolName != chunk.Function.Name {""")]),
 ("C17-stream-read-error-loses-identity","compose/error.go",[("""	return fmt.Errorf("failed to read from stream. error: %w", err)""","""	return fmt.Errorf("failed to read from stream. error: %v", err)""")]),
 ("C17-message-array-concat-skips-blank-messages","schema/message.go",[("""			m := ma[i]
			if m != nil {
				slicesToConcat[i] = append(slicesToConcat[i], m)
			}""","""			m := ma[i]
			if m != nil && (m.Content != "" || len(m.ToolCalls) > 0 || m.ResponseMeta != nil || len(m.Extra) > 0) {
				slicesToConcat[i] = append(slicesToConcat[i], m)
			}""")]),
 ("C03-waitall-stops-at-first-failed-task","compose/graph_manager.go",[("""		if !success {
			return result, nil
		}
		result = append(result, ta)
	}
}""","""		if !success {
			return result, nil
		}
		result = append(result, ta)
		if ta.err != nil {
			return result, nil
		}
	}
}""")]),
 ("C13-node-error-already-attributed-guard","compose/error.go",[("""	ie.nodePath.path = append([]string{nodeKey}, ie.nodePath.path...)
	return ie
}

func newStreamWrapperError""","""	if len(ie.nodePath.path) > 0 && ie.nodePath.path[0] == nodeKey {
		return ie // already attributed to this node
	}
	ie.nodePath.path = append([]string{nodeKey}, ie.nodePath.path...)
	return ie
}

func newStreamWrapperError""")]),
 ("C17-tool-stream-error-ignored-when-reader-present","compose/tool_node.go",[("""	for i := 0; i < n; i++ {
		if tasks[i].err != nil {
			return nil, fmt.Errorf("failed to stream tool call %s: %w", tasks[i].callID, tasks[i].err)
		}

		index := i""","""	for i := 0; i < n; i++ {
		if tasks[i].sOutput == nil {
			return nil, fmt.Errorf("failed to stream tool call %s: %w", tasks[i].callID, tasks[i].err)
		}

		index := i""")]),
]
only=sys.argv[1] if len(sys.argv)>1 else ''
for name,f,edits in muts:
    if only and only not in name: continue
    sh(f'git -C {WT} checkout -q -- .')
    p=f'{WT}/{f}'; s=open(p).read(); ok=True
    for a,b in edits:
        if s.count(a)!=1: print(name,'EDIT-NOT-UNIQUE',s.count(a)); ok=False; break
        s=s.replace(a,b)
    if not ok: continue
    open(p,'w').write(s)
    r=sh('go build ./...',cwd=WT)
    if r.returncode!=0: print(name,'BUILD-FAIL',r.stderr[:300]); continue
    r=sh('go test -vet=off -count=1 ./... 2>&1 | grep -E "^(FAIL|--- FAIL|panic:)"',cwd=WT)
    if r.stdout.strip(): print(name,'TESTS-FAIL',r.stdout[:200].replace(chr(10),' | ')); continue
    d=sh('git diff',cwd=WT).stdout
    open(f'/verif/mutants/{name}.patch','w').write(d)
    print(name,'kept')
sh(f'git -C /repo worktree remove --force {WT}')
