#!/usr/bin/env python3
"""tools_mutresults.py <selftest output>: writes mutants/RESULTS.md from the output of ./selftest.sh."""
import sys, re, collections
rows = collections.OrderedDict()
for l in open(sys.argv[1]):
    m = re.match(r'(\S+\.patch): check=(\S+) exit=(\d+) (\d+) violation line\(s\)(.*)', l)
    if m:
        rows.setdefault(m.group(1), []).append((m.group(2), int(m.group(3)), int(m.group(4)), m.group(5).strip()))
        continue
    m = re.match(r'(\S+\.patch): (DOES-NOT-\S+)', l)
    if m:
        rows.setdefault(m.group(1), []).append(("-", -1, 0, m.group(2)))
out = ["# Mutants: which check reports which change", "",
       "Produced by `./selftest.sh` (every patch applied in a scratch worktree of /repo's HEAD, changed files overlaid with",
       "`VERIF_PATCH_DIR`, `./check <ID> quick`; the checks of `mutants/CHECKS.map` where a change belongs to another check).",
       "Every patch compiles and passes eino's own test suite. `detected` = exit 1 with VIOLATION lines.", "",
       "| mutant | check: result |", "|---|---|"]
det = 0
for name, rs in rows.items():
    cells = []
    ok = False
    for chk, rc, n, extra in rs:
        if rc == 1:
            cells.append(f"{chk}: detected ({n} violation lines)"); ok = True
        elif rc == 0:
            cells.append(f"{chk}: not reported")
        elif rc == 2:
            cells.append(f"{chk}: exit 2 ({extra[:120]})")
        else:
            cells.append(extra)
    det += ok
    out.append(f"| {name} | {'; '.join(cells)} |")
out += ["", f"{det} of {len(rows)} mutants detected by at least one of the checks run against them."]
open("/verif/mutants/RESULTS.md", "w").write("\n".join(out) + "\n")
print(out[-1])
