// Package verifx holds export stubs overlaid into the eino module for the /verif checks (never part of /repo).
// This file: C12 only (names are prefixed C12; other checks add their own files to this package).
package verifx

import "github.com/cloudwego/eino/internal/serialization"

// C12Marshal re-exports serialization.Marshal, the encoder compose.checkPointer.set hands the checkpoint to.
func C12Marshal(v interface{}) ([]byte, error) { return serialization.Marshal(v) }

// C12Unmarshal re-exports serialization.Unmarshal, the decoder compose.checkPointer.get reads a checkpoint with.
func C12Unmarshal(data []byte) (interface{}, error) { return serialization.Unmarshal(data) }

// C12Register re-exports serialization.GenericRegister; it is the function compose.RegisterSerializableType
// forwards to (the check registers through the public function and uses this one only to show they are the same
// registry: a second registration of the same type through either entry point must be refused).
func C12Register[T any](name string) error { return serialization.GenericRegister[T](name) }
