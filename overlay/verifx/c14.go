// Package verifx holds export stubs overlaid into the eino module for the /verif checks (never part of /repo).
// This file: C14 only (names are prefixed C14; other checks add their own files to this package).
package verifx

import "github.com/cloudwego/eino/internal"

// C14ConcatItems re-exports internal.ConcatItems, the generic entry point used by every stream-to-value
// conversion (compose.concatStreamReader) and by schema.ConcatMessages for Message.Extra.
// Its documented precondition is len(items) > 1.
func C14ConcatItems[T any](items []T) (T, error) { return internal.ConcatItems(items) }
