#!/usr/bin/env python3
"""Regenerates MANIFEST.json from the table below (keeps it schema-valid at all times)."""
import json, os
V = "/verif"
R_NOTE = "Trusts the Go reference model to state the property (it is ~100 lines written from the statement, not from the implementation) and the instrumented node lambdas to report executions faithfully; native goroutine scheduling is not controlled here (completion-order independence is C03's business); bounds as stated in the evidence rule."
S_NOTE = "Trusts the source rewriter + vsched shim to model Go channel/select/mutex/once/atomic semantics; sequential consistency at synchronisation granularity (node bodies are atomic between explicit yields); happens-before state caching assumes the protocol code is data-race free (races are the business of the separate free-running -race pass); map iteration order restricted to ascending and descending (both explored)."
checks = {
 "C13": dict(engine="R", technique="exhaustive enumeration of failure injections (structure towers x failing position x failure kind x native paradigm x calling paradigm, tools, merged streams, step limit, cancellation) each executed on the implementation; crash attribution by journal, hangs by watchdog",
   text="Every combination within the bounds of graph kind (Pregel, all-predecessor, Workflow, Chain) and shape, nesting depth 0-2, failing node position, failure kind (sentinel, typed error, panic(string), panic(error)), node paradigm and calling paradigm, plus parallel failures, tools inline and in goroutines, panicking converters in merged streams, step limit and cancellation, is run; the error must be non-nil, match errors.Is/As for the original, name the node path outermost-to-innermost, match the max-steps sentinel and context.Canceled, and a panic must surface as an error with the process alive. Right level: a finite fault-injection space over deterministic code.",
   note="Node-path attribution of error items that arrive mid-stream is counted but not judged (the statement is silent on it); panics in free-running goroutines are attributed through a journal written before each case; verdicts never depend on completion order.", design="3/C13"),
 "C14": dict(engine="R", technique="exhaustive enumeration of all chunk sequences up to the length bound over per-type alphabets; every sequence and every split point executed on the real concatenation entry points; independent reference model for message fields",
   text="All chunk sequences (length <=3/4 quick, <=4/5 thorough) over alphabets of strings, messages (role/content, ids, response meta, extras incl. nil and nested maps, tool-call fragments), message lists, maps, registered and unregistered custom types are concatenated through ConcatMessages, ConcatMessageStream, the generic ConcatItems and a compiled graph; oracle: never a panic, deterministic over repetitions, invariant under every re-chunking split, text/tool-call arguments in arrival order and fragments merged by index. Right level: concatenation is a pure function over a finite alphabet of short sequences.",
   note="Trusts the canonical rendering used to compare results and the small independent model for message fields; alphabets are factored into aspect families plus pairwise mixes rather than one full product; error texts are not compared.", design="3/C14"),
 "C16": dict(engine="R", technique="exhaustive enumeration of (graph, option set) pairs within bounds against a routing reference model; every pair executed on the implementation (Invoke+Stream, consecutive calls)",
   text="For a menu of graphs of nesting depth <=2 (<=3 thorough) mixing lambdas with two option types, a chat model, a tools node, pass-through nodes, nested graphs/chains/workflows with node keys reused across levels, every multiset of <=3 options (undesignated, designated by key/path/several paths, invalid designations, callbacks) is run; per node the received options must equal the routing model's, the call errors iff the designation is invalid, and consecutive calls do not leak. Right level: option routing is a deterministic function of a finite configuration space.",
   note="Trusts the routing model written from the statement and the doc comments; decisions where the statement is silent are listed in the evidence notes (undesignated lambda options filtered by type identity, callbacks designated to a graph node may fire inside it).", design="3/C16"),
 "C18": dict(engine="R", technique="exhaustive enumeration of scripted model behaviours (scripts x chunkings x configurations) against the unfolding reference model; every script executed on the real agent with Generate and Stream",
   text="All model scripts of <=3 (<=4 thorough) assistant turns with 0-2 tool calls over {t1, t2(return-directly), unknown}, streamed in every chunking of <=3 chunks compatible with the configured tool-call checker, x tool sets, return-directly sets, step limits, message modifier, invokable/streamable tools are run on react.NewAgent; the k-th model call must see exactly the unfolded history, the answer must be the first tool-call-free assistant message or the return-directly result, the step limit must stop the run, Generate and Stream must agree. Right level: the agent is a deterministic state machine driven by a finite script.",
   note="Trusts the scripted fake chat model and recording tools; details the statement leaves open (several return-directly calls in one turn, exact step-limit cutoff) are accepted either way and listed in the evidence notes.", design="3/C18"),
 "C05": dict(engine="R", technique="exhaustive enumeration of interrupt/resume histories (programs x interrupt point sets x branch outcomes x resume paradigm patterns) replayed call by call on the implementation through a byte-level store; differential against the uninterrupted reference-model run",
   text="Every history within the bounds (all small flat shapes in the three modes, curated nested graphs incl. cycles through a sub-graph node, re-run nodes; every set of <=2 interrupt points per nesting level; every branch-outcome sequence; Invoke/Stream/alternating resumes) is executed to completion on the real implementation with real serialisation; final output and the accumulated multiset of (node, input) executions must equal the uninterrupted model run. Right level: interrupt points are crash points of a deterministic history; the space of short histories is finite and enumerable.",
   note=R_NOTE, design="3/C05"),
 "C06": dict(engine="R", technique="exhaustive enumeration of interrupt/resume histories (same space as C05) with an ordering/reporting oracle evaluated on every call of every history",
   text="On the same exhaustive set of histories as C05: a before-node (at any nesting level, incl. direct successors of START) starts only after an interrupt that reported it; after an after-node completes no successor starts on its output and the interrupt lists it unless the run finished; interrupt info is extractable and consistent; with an id exactly one checkpoint is written iff the call returns an interrupt, without id none.",
   note=R_NOTE, design="3/C06"),
 "C03": dict(engine="S", technique="stateless exhaustive interleaving exploration of real graph runs (executor goroutines vs run loop) under a controlled scheduler, iterative preemption bounding, both map orders",
   text="For graph shapes with 2-3 concurrently runnable nodes (Pregel fan-out, DAG, eager Workflow, nested graphs), with yields, errors and panics in node bodies, every interleaving of the executor goroutines and the run loop within the preemption bound is executed on the real taskManager; result and executed set must equal the sequential model, every started node is collected exactly once, no hang, nothing left blocked. Right level: completion order is a schedule quantifier over a tiny hand-off protocol (1-slot channel + overflow list + mutex).",
   note=S_NOTE, design="3/C03"),
 "C02": dict(engine="R", technique="explicit enumeration of all acyclic graph/workflow programs and all branch-outcome combinations within bounds against a readiness reference model; every model trace replayed on the implementation",
   text="All acyclic shapes up to renaming within the node/arc bounds, as all-predecessor Graph and as Workflow with every assignment of dependency kinds (normal, control-only, data-only), with single/multi branches, pass-through and nested variants, under all combinations of branch outcomes, are replayed with Invoke and Stream; executed set, at-most-once, per-node inputs and result must equal the model's. Right level: readiness bookkeeping is deterministic logic over a small finite state space.",
   note=R_NOTE, design="3/C02"),
 "C01": dict(engine="R", technique="explicit enumeration of all graph programs and all branch-outcome sequences within bounds against a Pregel reference model; every model trace replayed on the implementation (trace conformance)",
   text="All any-predecessor graphs up to renaming within the node/arc bounds (cycles, self-loops, single and multi branches, sub-graphs, pass-throughs, chains), all step limits, and for each all sequences of branch outcomes (DFS over the model's decision points) are replayed on the real implementation with Invoke and Stream; result, error class and the per-superstep execution log must equal the model's. Right level: the run loop is deterministic sequential logic whose state space over a small alphabet can be enumerated completely.",
   note=R_NOTE, design="3/C01"),
 "C08": dict(engine="S", technique="stateless exhaustive interleaving exploration of the real schema package under a controlled scheduler (iterative preemption bounding + happens-before state caching)",
   text="Every interleaving (within the stated preemption bound, completed exhaustively) of producers, consumers and framework forwarder goroutines on enumerated stream trees is executed on the real implementation and judged by a sequence oracle; deadlock and leaks are decided exactly from the scheduler's thread table. Right level: the property quantifies over schedules of a tiny closed concurrency core.",
   note="Trusts the source rewriter + vsched shim to model Go channel/select/sync semantics; assumes data-race freedom for happens-before caching (races are the business of the free-running -race pass); bounds: <=6 threads, <=3 items per source, preemption bound 2 (3 in thorough).",
   design="3/C08"),
}
implemented = {p for p in checks if os.path.isdir(f"{V}/checks/{p.lower()}")}
na_reasons = {}
allp = [json.loads(l)["id"] for l in open(f"{V}/properties.jsonl")]
m = {
 "version": 1,
 "setup_cmd": "./setup.sh",
 "hooks": {
  "guard": "verif",
  "enable": "no source hooks are committed to /repo: instrumentation is generated at check time by /verif/bin/rewrite from the current working tree and injected with `go build -tags verif -overlay <work>/overlay.json` (DESIGN.md 2.1)",
  "baseline_off_cmd": "cd /repo && GOFLAGS=-mod=mod GOPROXY=off GOSUMDB=off GOTOOLCHAIN=local go test -vet=off -count=1 ./...",
  "source_commits": [],
  "add_only": True,
 },
 "engines": [
  {"name": "S", "path": "engine/vsched + engine/rewrite", "serves_properties": sorted(p for p in implemented if checks[p]["engine"] == "S"), "kind_free_text": "controlled cooperative scheduler shim, typed source rewriter, stateless DFS explorer with iterative preemption bounding and happens-before state caching; runs the real implementation"},
  {"name": "R", "path": "lib + models + checks", "serves_properties": sorted(p for p in implemented if checks[p]["engine"] == "R"), "kind_free_text": "exhaustive enumeration of programs/inputs/histories of a small alphabet against a Go reference model; every model trace is replayed on the real implementation through the public API"},
 ],
 "checks": [],
 "not_applicable": [],
 "notes": "Driver: ./check <ID> <quick|thorough> [--replay file]. Exit 0 held / 1 violation / 2 infrastructure. Known findings: known_findings.json.",
}
for p in allp:
    if p in implemented:
        c = checks[p]
        m["checks"].append({
          "property_id": p,
          "quick_cmd": f"./check {p} quick",
          "thorough_cmd": f"./check {p} thorough",
          "evidence_file": f"/verif/evidence/{p}.json",
          "replay_cmd_template": f"./check {p} quick --replay {{path}}",
          "engine": c["engine"],
          "level_claimed": {"category": "model_checking", "text": c["text"], "design_ref": c["design"]},
          "level_note": c["note"],
          "technique": c["technique"],
        })
    else:
        m["not_applicable"].append({"property_id": p, "reason": na_reasons.get(p, "check not built yet in this round (planned: model checking per DESIGN.md section 3); nothing is claimed for it until the check exists")})
json.dump(m, open(f"{V}/MANIFEST.json", "w"), indent=1)
print("implemented:", sorted(implemented))
