#!/bin/bash
# runall.sh [quick|thorough] [driver args, e.g. --budget 240]: runs every claimed check and prints one line per check.
cd /verif
tier=${1:-quick}; shift 2>/dev/null
for id in $(python3 -c "import json;print(' '.join(c['property_id'] for c in json.load(open('MANIFEST.json'))['checks']))"); do
  s=$(date +%s)
  out=$(./check $id $tier "$@" 2>&1); rc=$?
  echo "$id rc=$rc $(( $(date +%s)-s ))s :: $(echo "$out" | grep '^check ' | tail -1 | cut -c1-220)"
  echo "$out" | grep -E "^VIOLATION|infrastructure" | head -5
done
