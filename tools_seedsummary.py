#!/usr/bin/env python3
"""Regenerates seeded/SUMMARY.md from seeded/*/meta.json."""
import json, glob, os
rows = {1: [], 2: [], 3: [], 4: [], 5: [], 6: [], 7: [], 8: []}
for d in sorted(glob.glob('/verif/seeded/C*')):
    m = json.load(open(d + '/meta.json'))
    sid = os.path.basename(d)
    rows[m.get('round', 1)].append((sid, m))
out = ["# Seeded changes (written by sub-agents that saw only the property text and a scratch worktree)\n",
       "Every change was confirmed by `seedtest.sh` (eino's own suite passes with it; the sub-agent's demonstration test fails with it and passes without) before the checks were run against it through `VERIF_PATCH_DIR`. `<ID>/patch.diff`, `<ID>/demo/`, `<ID>/meta.json`.\n"]
for rnd in (1, 2, 3, 4, 5, 6, 7, 8):
    out.append(f"\n## Round {rnd}\n")
    out.append("| seed | change | needs to manifest | detection |\n|---|---|---|---|")
    for sid, m in rows[rnd]:
        esc = lambda s: str(s).replace('|', '\\|').replace('\n', ' ')
        out.append(f"| {sid} | {esc(m.get('idea',''))} | {esc(m.get('needs_to_manifest',''))} | {esc(m.get('detection',''))} |")
open('/verif/seeded/SUMMARY.md', 'w').write('\n'.join(out) + '\n')
print([len(rows[k]) for k in rows])
