#!/bin/bash
# seedtest.sh <ID>[suffix] [check ids...]: confirm a seeded breaking change made in the scratch worktree /tmp/seed-<ID>
# (compiles, eino's tests pass, demo fails with it and passes without), run the given checks (default: <ID>)
# against it through VERIF_PATCH_DIR, and store everything under /verif/seeded/<ID>/.
set -u
ID=$1; shift
PROP=${ID:0:3}
CHECKS=${*:-$PROP}
WT=/tmp/seed-$ID
OUT=/verif/seeded/$ID
export GOFLAGS=-mod=mod GOPROXY=off GOSUMDB=off GOTOOLCHAIN=local
mkdir -p $OUT
cd $WT || exit 2
git diff > $OUT/patch.diff
demo=$(git status --short | grep '^??' | awk '{print $2}' | grep '_test.go$' | head -5)
[ -s $OUT/patch.diff ] || { echo "no change in $WT"; exit 2; }
echo "changed: $(git diff --name-only | tr '\n' ' ') demo: $demo"
for d in $demo; do mkdir -p $OUT/demo/$(dirname $d); cp $d $OUT/demo/$d; done
# 1. with the change: build + whole suite (demo excluded), demo must fail
for d in $demo; do mv $d $d.off; done
suite=$(go build ./... 2>&1 && go test -vet=off -count=1 ./... 2>&1 | grep -v "no test files" | grep -v "^ok" | head -5)
for d in $demo; do mv $d.off $d; done
demo_with=""; demo_without=""
for d in $demo; do
  pkg=./$(dirname $d)
  if go test -vet=off -count=1 -run . $pkg >/tmp/seedwork-$ID.with 2>&1; then demo_with="$demo_with PASS"; else demo_with="$demo_with FAIL"; fi
done
# 2. without the change
git diff > /tmp/seedwork-$ID.patch; git checkout -- .
for d in $demo; do
  pkg=./$(dirname $d)
  if go test -vet=off -count=1 -run . $pkg >/tmp/seedwork-$ID.without 2>&1; then demo_without="$demo_without PASS"; else demo_without="$demo_without FAIL"; fi
done
git apply /tmp/seedwork-$ID.patch
echo "suite-with-change: ${suite:-all ok} | demo with:$demo_with without:$demo_without"
# 3. our checks against the change
PD=$(mktemp -d)
for f in $(git diff --name-only); do mkdir -p $PD/$(dirname $f); cp $f $PD/$f; done
cd /verif
results=""
for c in $CHECKS; do
  o=$(VERIF_PATCH_DIR=$PD ./check $c quick 2>&1); rc=$?
  first=$(echo "$o" | grep -A2 '^VIOLATION' | head -3 | tr '\n' ' ' | cut -c1-400)
  echo "check $c rc=$rc :: $first"
  results="$results {\"check\":\"$c\",\"exit\":$rc},"
  rm -rf /verif/replays/$c
done
rm -rf $PD /tmp/seedwork-$ID.with /tmp/seedwork-$ID.without /tmp/seedwork-$ID.patch
python3 - <<PY
import json
json.dump({"property":"$PROP","suite_with_change":"""${suite:-all packages ok}""","demo_with_change":"$demo_with".strip(),"demo_without_change":"$demo_without".strip(),"checks_run":[${results%,}],"how":"VERIF_PATCH_DIR=<changed files> ./check <id> quick (equivalent to git -C /repo apply patch.diff; run; git -C /repo checkout -- .)"},open("$OUT/meta.json","w"),indent=1)
PY
