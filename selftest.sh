#!/bin/bash
# selftest.sh [pattern]: for every mutants/<ID>-*.patch (matching pattern) apply it in a scratch worktree, overlay the
# changed files with VERIF_PATCH_DIR, run ./check <ID> quick and record whether the check reports a violation.
cd /verif
export GOFLAGS=-mod=mod GOPROXY=off GOSUMDB=off GOTOOLCHAIN=local
export VERIF_CONFIRM_LIMIT=${VERIF_CONFIRM_LIMIT:-2}   # one or two confirmed violations are enough to call a mutant detected
WT=$(mktemp -d /tmp/mutwt-XXXX); rmdir $WT
git -C /repo worktree add --detach $WT >/dev/null 2>&1 || exit 2
trap 'git -C /repo worktree remove --force $WT >/dev/null 2>&1' EXIT
pat=${1:-}
for p in mutants/*${pat}*.patch; do
  id=$(basename $p | cut -d- -f1)
  git -C $WT checkout -q -- . ; git -C $WT clean -fdq
  if ! git -C $WT apply $PWD/$p 2>/dev/null; then
    if ! git -C $WT apply --3way $PWD/$p 2>/dev/null; then echo "$(basename $p): DOES-NOT-APPLY"; continue; fi
  fi
  if ! (cd $WT && go build ./... >/dev/null 2>&1); then echo "$(basename $p): DOES-NOT-BUILD"; continue; fi
  PD=$(mktemp -d)
  for f in $(git -C $WT diff --name-only; git -C $WT diff --cached --name-only); do mkdir -p $PD/$(dirname $f); cp $WT/$f $PD/$f; done
  # checks to run: the property's own, unless mutants/CHECKS.map names others for this patch
  ids=$(grep "^$(basename $p) " mutants/CHECKS.map 2>/dev/null | cut -d' ' -f2-)
  for cid in ${ids:-$id}; do
    o=$(VERIF_PATCH_DIR=$PD ./check $cid quick 2>&1); rc=$?
    echo "$(basename $p): check=$cid exit=$rc $(echo "$o" | grep -c '^VIOLATION') violation line(s) $( [ $rc = 2 ] && echo "$o" | grep -m1 'infrastructure' | cut -c1-200)"
    rm -rf replays/$cid
  done
  rm -rf $PD
done
