#!/bin/bash
# selftest.sh [pattern]: for every mutants/<ID>-*.patch (matching pattern) apply it in a scratch worktree, overlay the
# changed files with VERIF_PATCH_DIR, run ./check <ID> quick and record whether the check reports a violation.
cd /verif
export GOFLAGS=-mod=mod GOPROXY=off GOSUMDB=off GOTOOLCHAIN=local
WT=$(mktemp -d /tmp/mutwt-XXXX); rmdir $WT
git -C /repo worktree add --detach $WT >/dev/null 2>&1 || exit 2
trap 'git -C /repo worktree remove --force $WT >/dev/null 2>&1' EXIT
pat=${1:-}
for p in mutants/*${pat}*.patch; do
  id=$(basename $p | cut -d- -f1)
  git -C $WT checkout -q -- . ; git -C $WT clean -fdq
  if ! git -C $WT apply $PWD/$p 2>/dev/null; then
    if ! git -C $WT apply --3way $PWD/$p 2>/dev/null; then echo "$(basename $p): DOES-NOT-APPLY"; continue; fi
  fi
  if ! (cd $WT && go build ./... >/dev/null 2>&1); then echo "$(basename $p): DOES-NOT-BUILD"; continue; fi
  PD=$(mktemp -d)
  for f in $(git -C $WT diff --name-only; git -C $WT diff --cached --name-only); do mkdir -p $PD/$(dirname $f); cp $WT/$f $PD/$f; done
  o=$(VERIF_PATCH_DIR=$PD ./check $id quick 2>&1); rc=$?
  sigs=$(ls replays/$id 2>/dev/null | wc -l)
  echo "$(basename $p): exit=$rc $(echo "$o" | grep -c '^VIOLATION') violation line(s)"
  rm -rf $PD replays/$id
done
