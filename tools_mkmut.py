import subprocess,sys,os,re
WT='/tmp/mkmut-wt'
env=dict(os.environ,GOFLAGS='-mod=mod',GOPROXY='off',GOSUMDB='off',GOTOOLCHAIN='local')
def sh(c,**k): return subprocess.run(c,shell=True,capture_output=True,text=True,env=env,**k)
if not os.path.isdir(WT): sh(f'git -C /repo worktree add --detach {WT}')
muts=[
 ("C01-pregel-channel-not-cleared","compose/pregel.go",[("defer func() { ch.Values = map[string]any{} }()","defer func() {}()")]),
 ("C01-max-steps-off-by-one","compose/graph_run.go",[("if !r.dag && step >= maxSteps {","if !r.dag && step > maxSteps {")]),
 ("C02-skip-does-not-resolve-data-predecessor","compose/dag.go",[("""		if _, ok := ch.DataPredecessors[k]; ok {
			ch.DataPredecessors[k] = true
		}
	}

	allSkipped := true""","""	}

	allSkipped := true""")]),
 ("C02-branch-skip-ignores-other-branch-selection","compose/graph_run.go",[("""		if _, ok := skippedNodes[selected]; ok {
			delete(skippedNodes, selected)
		}""","""		_ = selected""")]),
 ("C03-waitone-does-not-top-up-channel","compose/graph_manager.go",[("""	ta := <-t.done
	t.mu.Lock()
	t.updateChan()
	t.mu.Unlock()
""","""	ta := <-t.done
""")]),
 ("C03-executor-pushes-before-list","compose/graph_manager.go",[("""		t.mu.Lock()
		t.l.PushBack(currentTask)
		t.updateChan()
		t.mu.Unlock()""","""		t.mu.Lock()
		select {
		case t.done <- currentTask:
		default:
			t.l.PushBack(currentTask)
		}
		t.mu.Unlock()""")]),
 ("C05-subgraph-checkpoint-forwarded-every-time","compose/checkpoint.go",[("		delete(cp.SubGraphs, nodeKey) // a sub-graph checkpoint is consumed by the first resumed execution only\n","")]),
 ("C05-interrupt-drops-tasks-of-late-finishers","compose/graph_run.go",[("return nil, r.handleInterrupt(ctx, interruptBeforeNodes, interruptAfterNodes, append(nextTasks, newNextTasks...), cm.channels, isStream, isSubGraph, checkPointID)","return nil, r.handleInterrupt(ctx, interruptBeforeNodes, interruptAfterNodes, nextTasks, cm.channels, isStream, isSubGraph, checkPointID)")]),
 ("C06-start-successors-not-checked","compose/graph_run.go",[("""		if keys := getHitKey(nextTasks, r.interruptBeforeNodes); len(keys) > 0 {
			return nil, r.handleInterrupt(ctx, keys, nil, nextTasks, cm.channels, isStream, isSubGraph, checkPointID)
		}
""","")]),
 ("C06-hit-key-stops-at-first","compose/graph_run.go",[("""			if key == t.nodeKey {
				ret = append(ret, t.nodeKey)
			}""","""			if key == t.nodeKey {
				return append(ret, t.nodeKey)
			}""")]),
 ("C08-source-closed-when-all-but-one-child-closed","schema/stream.go",[("allClosed := int(curClosedNum) == len(p.subStreamList)","allClosed := int(curClosedNum) >= len(p.subStreamList)-1")]),
 ("C08-copy-cursor-advanced-outside-once","schema/stream.go",[("""		if err != io.EOF {
			elem.next = &cpStreamElement[T]{}
			p.subStreamList[idx] = elem.next
		}
	})""","""		elem.next = &cpStreamElement[T]{}
		p.subStreamList[idx] = elem.next
	})""")]),
 ("C10-handlers-appended-into-parent-slice","internal/callbacks/inject.go",[("""	nh := make([]Handler, 0, len(cbm.handlers)+len(handlers))
	nh = append(nh, cbm.handlers...)
	nh = append(nh, handlers...)
	return InitCallbacks(ctx, info, nh...)""","""	return InitCallbacks(ctx, info, append(cbm.handlers, handlers...)...)""")]),
 ("C10-stream-payload-one-copy-short","internal/callbacks/inject.go",[("""	inOuts := cpy(len(handlers) + 1)

	for i, handler := range handlers {
		ctx = handle(ctx, handler, inOuts[i])
	}

	return ctx, inOuts[len(inOuts)-1]""","""	inOuts := cpy(len(handlers))

	for i, handler := range handlers {
		ctx = handle(ctx, handler, inOuts[i])
	}

	return ctx, inOuts[len(inOuts)-1]""")]),
 ("C11-processstate-without-lock","compose/state.go",[("""		return fmt.Errorf("get state from context fail: %w", err)
	}
	pMu.Lock()
	defer pMu.Unlock()
	return handler(ctx, s)""","""		return fmt.Errorf("get state from context fail: %w", err)
	}
	_ = pMu
	return handler(ctx, s)""")]),
 ("C11-state-generated-once-per-compile","compose/graph.go",[("""		r.runCtx = func(ctx context.Context) context.Context {
			return context.WithValue(ctx, stateKey{}, &internalState{
				state: g.stateGenerator(ctx),
			})
		}""","""		var shared *internalState
		r.runCtx = func(ctx context.Context) context.Context {
			if shared == nil {
				shared = &internalState{state: g.stateGenerator(ctx)}
			}
			return context.WithValue(ctx, stateKey{}, shared)
		}""")]),
 ("C19-surplus-copy-not-closed","compose/graph_manager.go",[("""			} else {
				if sr, okk := value.(streamReader); okk {
					sr.close()
				}
			}""","""			}""")]),
 ("C19-copy-forwarder-does-not-release-source","schema/stream.go",[("""			ret.closeSend()
			csr.close()""","""			ret.closeSend()""")]),
 ("C19-duplicate-successor-copy-dropped","compose/graph_run.go",[("""				if old, dup := writeChannelValues[next][t.nodeKey]; dup {
					// the same successor is reached through a branch and through a (data) edge: one copy is delivered,
					// the surplus stream copy has to be closed or its source is never released
					if sr, ok := old.(streamReader); ok {
						sr.close()
					}
				}
""","")]),
]
only=sys.argv[1] if len(sys.argv)>1 else ''
for name,f,edits in muts:
    if only and only not in name: continue
    sh(f'git -C {WT} checkout -q -- .')
    p=f'{WT}/{f}'; s=open(p).read(); ok=True
    for a,b in edits:
        if s.count(a)!=1: print(name,'EDIT-NOT-UNIQUE',s.count(a)); ok=False; break
        s=s.replace(a,b)
    if not ok: continue
    open(p,'w').write(s)
    r=sh('go build ./...',cwd=WT)
    if r.returncode!=0: print(name,'BUILD-FAIL',r.stderr[:300]); continue
    r=sh('go test -vet=off -count=1 ./... 2>&1 | grep -E "^(FAIL|--- FAIL|panic:)"',cwd=WT)
    if r.stdout.strip(): print(name,'TESTS-FAIL',r.stdout[:200].replace(chr(10),' | ')); continue
    d=sh(f'git -C {WT} diff').stdout
    open(f'/verif/mutants/{name}.patch','w').write(d)
    print(name,'ok')
sh(f'git -C {WT} checkout -q -- .')
