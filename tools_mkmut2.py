#!/usr/bin/env python3
"""Second batch of own mutants (candidates the seeding sub-agents wrote down but did not implement, and a few
neighbours). Same procedure as tools_mkmut.py: apply in a scratch worktree, build, run eino's suite, keep the
patch only if the suite passes."""
import subprocess,sys,os
WT='/tmp/mkmut-wt'
env=dict(os.environ,GOFLAGS='-mod=mod',GOPROXY='off',GOSUMDB='off',GOTOOLCHAIN='local')
def sh(c,**k): return subprocess.run(c,shell=True,capture_output=True,text=True,env=env,**k)
if not os.path.isdir(WT): sh(f'git -C /repo worktree add --detach {WT}')
muts=[
 ("C14-concatmaps-all-nil-key-vanishes","internal/concat.go",[("""			// every chunk had a nil value under this key
			ret.SetMapIndex(key, reflect.Zero(typ.Elem()))
			continue""","""			// every chunk had a nil value under this key
			continue""")]),
 ("C12-nil-map-entries-skipped","internal/serialization/serialization.go",[("""			keyStr, err := sonic.MarshalString(k.Interface())
			if err != nil {
				return nil, fmt.Errorf("marshaling map key[%v] fail: %v", k.Interface(), err)
			}
			ret.MapValues[keyStr] = internalValue""","""			keyStr, err := sonic.MarshalString(k.Interface())
			if err != nil {
				return nil, fmt.Errorf("marshaling map key[%v] fail: %v", k.Interface(), err)
			}
			if internalValue == nil {
				continue
			}
			ret.MapValues[keyStr] = internalValue""")]),
 ("C05-input-keyed-node-keeps-inner-helper","compose/runnable.go",[("""	wrapper := *r
	wrapper.genericHelper = wrapper.genericHelper.forMapInput()
	i := r.i""","""	wrapper := *r
	i := r.i""")]),
 ("C13-stream-wrapper-error-forgets-node-path","compose/error.go",[("""	ie.streamWrapperPath = append([]defaultImplAction{streamWrapperType}, ie.streamWrapperPath...)
	return ie""","""	return &internalError{
		typ:               ie.typ,
		streamWrapperPath: append([]defaultImplAction{streamWrapperType}, ie.streamWrapperPath...),
		origError:         ie.origError,
	}""")]),
 ("C19-stream-copies-sized-by-all-handlers","internal/callbacks/inject.go",[("""	return handle(ctx, inOut, mgr.runInfo, hs)""","""	if timing == TimingOnStartWithStreamInput || timing == TimingOnEndWithStreamOutput {
		_ = all
	}
	return handle(ctx, inOut, mgr.runInfo, hs)""")]),
 ("C08-select-4way-last-arm-wrong-index","schema/select.go",[("""			case item, ok := <-ss[chosenList[3]].items:
				return chosenList[3], &item, ok
			}
		},""","""			case item, ok := <-ss[chosenList[3]].items:
				return chosenList[2], &item, ok
			}
		},""")]),
 ("C02-multibranch-ignores-false-entries","compose/branch.go",[("""		ret := make([]string, 0, len(ends))
		for end := range ends {
			if !endNodes[end] {
				return nil, fmt.Errorf("branch invocation returns unintended end node: %s", end)
			}
			ret = append(ret, end)
		}

		return ret, nil
	}

	return newGraphBranch(newRunnablePacker(condRun, nil, nil, nil, false), endNodes)""","""		ret := make([]string, 0, len(ends))
		for end, on := range ends {
			if !endNodes[end] {
				return nil, fmt.Errorf("branch invocation returns unintended end node: %s", end)
			}
			if on {
				ret = append(ret, end)
			}
		}

		return ret, nil
	}

	return newGraphBranch(newRunnablePacker(condRun, nil, nil, nil, false), endNodes)""")]),
 ("C09-fieldmap-result-map-shared","compose/field_mapping.go",[("""	return func(input any) (result map[string]any, err error) {
		result = make(map[string]any, len(mappings))""","""	shared := make(map[string]any, len(mappings))
	return func(input any) (result map[string]any, err error) {
		result = shared""")]),
]
only=sys.argv[1] if len(sys.argv)>1 else ''
for name,f,edits in muts:
    if only and only not in name: continue
    sh(f'git -C {WT} checkout -q -- .')
    p=f'{WT}/{f}'; s=open(p).read(); ok=True
    for a,b in edits:
        if s.count(a)!=1: print(name,'EDIT-NOT-UNIQUE',s.count(a)); ok=False; break
        s=s.replace(a,b)
    if not ok: continue
    open(p,'w').write(s)
    r=sh('go build ./...',cwd=WT)
    if r.returncode!=0: print(name,'BUILD-FAIL',r.stderr[:300]); continue
    r=sh('go test -vet=off -count=1 ./... 2>&1 | grep -E "^(FAIL|--- FAIL|panic:)"',cwd=WT)
    if r.stdout.strip(): print(name,'TESTS-FAIL',r.stdout[:200].replace(chr(10),' | ')); continue
    d=sh('git diff',cwd=WT).stdout
    open(f'/verif/mutants/{name}.patch','w').write(d)
    print(name,'kept')
sh(f'git -C /repo worktree remove --force {WT}')
