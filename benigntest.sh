#!/bin/bash
# benigntest.sh [check ids...]: runs the quick checks (default: all) against every property-PRESERVING change set in
# benign/*.diff (applied in a scratch worktree, changed files overlaid through VERIF_PATCH_DIR). Every line must say
# rc=0: an alarm here is a false alarm of the machinery. The evidence files are restored afterwards (they must
# describe /repo itself). BENIGN=<pattern> restricts the change sets.
cd /verif
export GOFLAGS=-mod=mod GOPROXY=off GOSUMDB=off GOTOOLCHAIN=local
ids=${*:-$(python3 -c "import json;print(' '.join(c['property_id'] for c in json.load(open('MANIFEST.json'))['checks']))")}
WT=$(mktemp -d /tmp/benignwt-XXXX); rmdir $WT
git -C /repo worktree add --detach $WT >/dev/null 2>&1 || exit 2
trap 'git -C /repo worktree remove --force $WT >/dev/null 2>&1' EXIT
for d in benign/*${BENIGN:-}*.diff; do
  git -C $WT checkout -q -- . ; git -C $WT clean -fdq
  git -C $WT apply $PWD/$d || { echo "$d: DOES-NOT-APPLY"; continue; }
  (cd $WT && go build ./... ) || { echo "$d: DOES-NOT-BUILD"; continue; }
  PD=$(mktemp -d)
  for f in $(git -C $WT diff --name-only); do mkdir -p $PD/$(dirname $f); cp $WT/$f $PD/$f; done
  for id in $ids; do
    o=$(VERIF_PATCH_DIR=$PD ./check $id quick 2>&1); rc=$?
    echo "$(basename $d) $id rc=$rc $(echo "$o" | grep -c '^VIOLATION') viol :: $(echo "$o" | grep '^check ' | tail -1 | grep -o 'exhaustive=[a-z]* capped=[a-z()A-Z 0-9]*')"
    echo "$o" | grep -A2 '^VIOLATION' | head -6
    rm -rf replays/$id; git checkout -q replays 2>/dev/null
  done
  rm -rf $PD
done
git checkout -q evidence
