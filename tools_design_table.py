#!/usr/bin/env python3
"""Rewrites the table of DESIGN.md section 4 from evidence/*.json (run after ./runall.sh quick)."""
import json, re
rows = ["| ID | engine | scenarios / programs | impl. executions | states | transitions | distinct outcomes | pb done | race pass (scenarios x reps = runs) | wall s |",
        "|---|---|---|---|---|---|---|---|---|---|"]
def fmt(n): return f"{int(n):,}".replace(",", " ")
for i in range(1, 21):
    pid = f"C{i:02d}"
    e = json.load(open(f"/verif/evidence/{pid}.json"))
    c = e["coverage"]; k = c.get("counters", {})
    pb = c.get("preemption_bound_completed", "–")
    rp = "–"
    if k.get("racepass_scenarios_run") or k.get("racepass_runs"):
        rp = f'{fmt(k.get("racepass_scenarios_run",0))} x {k.get("racepass_rounds_completed", k.get("racepass_reps_per_scenario","?"))} = {fmt(k.get("racepass_runs",0))}'
    elif k.get("racepass_completed"):
        rp = "own pass (4 callers on one object)"
    rows.append(f'| {pid} | {c.get("engine")} | {fmt(c.get("scenarios",0))} | {fmt(c.get("evaluations",0))} | {fmt(c.get("states",0))} | {fmt(c.get("transitions",0))} | {c.get("distinct_outcomes")} | {pb} | {rp} | {e["wall_s"]:.0f} |')
s = open("/verif/DESIGN.md").read()
a = s.index("| ID | engine | scenarios / programs")
b = s.index("\n\n", a)
s = s[:a] + "\n".join(rows) + s[b:]
open("/verif/DESIGN.md", "w").write(s)
print("\n".join(rows))
